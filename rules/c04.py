"""C04 — Turtle/TriG output parses back: abbreviation guards (languages proof-level, guards structural)."""
import re
import grammars as G
from core import Relang, CheckError, Finding
from mirutil import (match_calls, patterns_by_owner, union_pattern, bool_switch, edge_dominates, reachable_without_edge,
                     blocks_with_agg, is_call_to, call_name_matches, provenance, comes_from_call, fmt_templates,
                     predicate_expr, REGEX_MATCH)

LEVEL = "proof"
EXPLANATION = (
    "Decides the abbreviation-guard clauses of C04. (L4.1) every raw emission of a literal's lexical form in "
    "the pretty serializer is reachable only through `datatype == xsd:T && REGEX_T.is_match(lexical)` edges, the "
    "pairing (T, REGEX_T) is read from the MIR, and L(REGEX_T) is included (all strings, DFA product) in both the "
    "Turtle shorthand production for T and the XSD lexical space of T. (L4.2) `prefix:local` is emitted only from "
    "the Some(..) arm of get_checked_prefixed_pair with a suffix check whose language, restricted to text that can "
    "occur in an IRI, is included in Turtle's PN_LOCAL without escapes; prefixes satisfy PN_PREFIX; "
    "get_checked_prefixed_pair returns (prefix, suffix) of the same map entry with iri == ns + suffix. (L4.3) write_iri, "
    "which serves every IRI position (predicate, datatype, graph name, quoted-triple component), emits nothing but these two "
    "forms: no position-dependent abbreviation such as `()`. "
    "(R4.3) the verdict of list_item depends on every class of arc of the node: any arc other than rdf:first/rdf:rest and a "
    "second rdf:first lead to None, and the rdf:rest arcs are counted with the count tested before the item is returned. "
    "NOT decided: sufficiency of the remaining list/inlining/annotation heuristics (build_lists, build_labelled), blank-node cycle handling, and everything "
    "delegated to rio's formatters; i.e. the isomorphism of the round trip itself.")

PAIRING = {
    # xsd datatype static -> (Turtle production, XSD lexical space)
    "sophia_api::ns::xsd::integer": ("TTL_INTEGER", "XSD_INTEGER"),
    "sophia_api::ns::xsd::decimal": ("TTL_DECIMAL", "XSD_DECIMAL"),
    "sophia_api::ns::xsd::double": ("TTL_DOUBLE", "XSD_DOUBLE"),
    "sophia_api::ns::xsd::boolean": ("TTL_BOOLEAN", "XSD_BOOLEAN"),
}
SINKS = r"write_bytes$|io::Write::write_all$|io::Write::write_fmt$|fmt::Write::write_str$|io::Write::write$"


def find_one(ck, facts, rule, crate, name_re, what):
    fns = facts.find_fns(crate=crate, name_re=name_re)
    if len(fns) != 1:
        ck.bad(rule, "%s@%s#anchor" % (rule, what), "anchor-missing: %s not found (%d candidates)" % (what, len(fns)))
        return None
    return fns[0]


def literal_rule(ck, facts, rl, owners):
    fn = find_one(ck, facts, "L4.1", "sophia_turtle", r"_pretty::Prettifier::<'a, W>::write_literal$",
                  "Prettifier::write_literal")
    if fn is None:
        return
    from mirutil import enumerate_paths
    owners_of = {}
    for bi, t, owner in match_calls(facts, fn):
        if owner is None or owner not in owners:
            ck.bad("L4.1", "L4.1@write_literal#unknown-regex", "is_match on an unidentified regex in write_literal", fn.loc)
            continue
        short = owner.split("::")[-1]
        # text matched must be the lexical form
        if not comes_from_call(fn, t["args"][1], r"Term>::lexical_form$|Term::lexical_form$"):
            ck.bad("L4.1", "L4.1@write_literal#%s-text" % short,
                   "%s is matched against something other than the literal's lexical form" % short, fn.loc)
            continue
        owners_of[id(t)] = owner

    def datatype_of_eq(ct):
        """xsd static compared with the literal's datatype by this `==` call, or None"""
        if not call_name_matches(ct, r"cmp::PartialEq(<.*>)?>?::(eq|ne)$"):
            return None
        consts, other = [], []
        for a in ct["args"]:
            last = provenance(fn, a)[-1]
            if last[0] == "const" and last[1].get("kind") == "static":
                consts.append(last[1]["def"])
            else:
                other.append(a)
        if len(consts) == 1 and len(other) == 1 and comes_from_call(fn, other[0], r"Term>::datatype$|Term::datatype$"):
            return consts[0]
        return None

    # everything computed from the lexical form (the form itself, a `replace`d or re-allocated copy, format arguments ...)
    from c19 import tainted_locals
    lex_sources = {t["dest"][0] for _, t in fn.calls() if call_name_matches(t, r"Term>?::lexical_form$") and len(t["dest"]) == 1}
    lex_taint = tainted_locals(fn, lex_sources) if lex_sources else set()

    def on_call(t):
        # an emission of lexical-form-derived text that does not go through the escaping routine `quoted_string`
        if call_name_matches(t, SINKS) and any(a[0] != "k" and a[1][0] in lex_taint for a in t["args"][1:]):
            return ("RAW", t)
        return None
    # Path rule (insensitive to how the test is spelled: nested ifs, `&&`/`||` chains, a boolean `let`): on every path, what
    # has been established *before* the lexical form is written raw must include, for one and the same T,
    # `datatype == xsd:T` and `REGEX_T.is_match(lexical form)`.
    try:
        paths = enumerate_paths(fn, 0, on_call, max_paths=4000, trace=True)
    except CheckError as e:
        ck.bad("L4.1", "L4.1@write_literal#shape", str(e), fn.loc)
        return
    pairs = []
    raw_sites = set()
    unguarded = set()
    mispaired = {}
    for conds, toks in paths:
        established, true_dt = [], []      # (regex, datatype established last before its verdict) in path order
        for tk in toks:
            if tk[0] == "?":
                o = tk[3]
                if o and o[0] == "call":
                    ct = o[1]
                    if id(ct) in owners_of and tk[2] is True:
                        established.append((owners_of[id(ct)], true_dt[-1] if true_dt else None))
                    dt = datatype_of_eq(ct)
                    if dt is not None:
                        is_ne = (ct["f"].get("name") or "").endswith("::ne")
                        if tk[2] is (not is_ne):
                            true_dt.append(dt)
            elif tk[0] == "RAW":
                t = tk[1]
                loc = "%s:%s" % (t["file"], t["line"])
                raw_sites.add(loc)
                if not established:
                    unguarded.add(loc)
                    continue
                r, d = established[-1]
                if d is None:
                    mispaired[r] = loc
                elif (r, d) not in pairs:
                    pairs.append((r, d))
    for loc in sorted(unguarded):
        ck.bad("L4.1", "L4.1@write_literal#unguarded-raw-emission",
               "the lexical form is written unquoted on a path that passes no shorthand regex test", loc)
    for owner, loc in sorted(mispaired.items()):
        short = owner.split("::")[-1]
        ck.bad("L4.1", "L4.1@write_literal#%s-datatype" % short,
               "the %s shorthand test is not guarded by an equality of the literal's datatype with an xsd constant" % short, loc)
    for loc in sorted(raw_sites - unguarded):
        ck.ok("L4.1-guard", "raw emission at %s only behind shorthand tests (%d paths)" % (loc.split("/")[-1].split(":")[0], len(paths)))
    # a path that establishes several (datatype, regex) facts must not mix them up: each regex is paired with one datatype
    by_regex = {}
    for r, d in pairs:
        by_regex.setdefault(r, set()).add(d)
    for r, ds in sorted(by_regex.items()):
        short = r.split("::")[-1]
        if len(ds) != 1:
            ck.bad("L4.1", "L4.1@write_literal#%s-ambiguous" % short, "%s guards the raw emission for several datatypes %s" % (short, sorted(ds)), fn.loc)
        else:
            ck.ok("L4.1-pairing", "%s <-> %s" % (sorted(ds)[0].split("::")[-1], short))
    for owner in sorted(set(owners_of.values()) - set(by_regex)):
        ck.bad("L4.1", "L4.1@write_literal#%s-branch" % owner.split("::")[-1],
               "verdict of %s never guards a raw emission" % owner.split("::")[-1], fn.loc)
    pairs = [(r, sorted(ds)[0]) for r, ds in sorted(by_regex.items()) if len(ds) == 1]
    ck.floor("L4.1", "datatype/regex pairings in write_literal", len(pairs), 4)
    ck.floor("L4.1", "raw emissions of the lexical form", len(raw_sites), 1)
    for owner, dt in pairs:
        short = owner.split("::")[-1]
        if dt not in PAIRING:
            ck.bad("L4.1", "L4.1@write_literal#%s-unknown-datatype" % short,
                   "shorthand for datatype %s is not one Turtle defines" % dt, fn.loc)
            continue
        ttl, xsd = PAIRING[dt]
        n = "REPO_" + short
        rl.lang(n, union_pattern([p["value"] for s in owners[owner] for p in s["patterns"]]))
        rl.subset("L4.1:%s<=%s" % (short, ttl), n, ttl)
        rl.subset("L4.1:%s<=%s" % (short, xsd), n, xsd)


def iri_rule(ck, facts, rl, owners):
    fn = find_one(ck, facts, "L4.2", "sophia_turtle", r"_pretty::Prettifier::<'a, W>::write_iri$", "Prettifier::write_iri")
    if fn is None:
        return
    # the call to get_checked_prefixed_pair and its closure
    calls = [(bi, t) for bi, t in fn.calls() if call_name_matches(t, r"PrefixMap>?::get_checked_prefixed_pair$")]
    if len(calls) != 1:
        ck.bad("L4.2", "L4.2@write_iri#prefixed-pair", "write_iri must obtain prefixed names from exactly one "
               "get_checked_prefixed_pair call (found %d)" % len(calls), fn.loc)
        return
    bi, t = calls[0]
    clo = fn.origin(t["args"][2])
    if not (clo[0] == "agg" and clo[1]["k"] == "closure"):
        ck.bad("L4.2", "L4.2@write_iri#suffix-check", "suffix check passed to get_checked_prefixed_pair is not a closure", fn.loc)
        return
    cfn = facts.fns.get(clo[1]["def"])
    try:
        expr, names = predicate_expr(facts, cfn, rl, owners, param=2)
    except CheckError as e:
        ck.bad("L4.2", "L4.2@write_iri#suffix-check-shape", str(e), cfn.loc)
        return
    ck.ok("L4.2-check", "suffix check = %s" % expr)
    rl.lang("NOBACKSLASH", "^[^\\\\]*$")
    rl.empty("L4.2:suffix-check&iri-text<=PN_LOCAL(no-escape)", "& & %s NOBACKSLASH ! TTL_PN_LOCAL_NOESC" % expr)
    # the argument must be a validated absolute IRI
    if not comes_from_call(fn, t["args"][1], r"sophia_iri::Iri::<T>::new$"):
        ck.bad("L4.2", "L4.2@write_iri#unvalidated", "the IRI handed to the prefix map is not the result of Iri::new(..)", fn.loc)
    # emissions: templates
    sw = None
    for cand in sorted(fn.reachable(t["to"])):
        tt = fn.blocks[cand]["t"]
        if tt["t"] == "switch":
            o = fn.origin(tt["on"])
            if o[0] == "rvalue" and o[1][0] == "discr" and o[1][1] == t["dest"]:
                vals = dict((v, b) for v, b in tt["vals"])
                sw = (cand, vals.get("1"), vals.get("0"))
            break
    if sw is None or sw[1] is None:
        ck.bad("L4.2", "L4.2@write_iri#match", "result of get_checked_prefixed_pair is not matched on", fn.loc)
        return
    seen_templates = []
    for tb, tt, tpl in fmt_templates(fn):
        shape = "".join(x[1] if x[0] == "lit" else "{}" for x in tpl) if tpl is not None else None
        seen_templates.append(shape)
        if shape == "{}:{}":
            if not edge_dominates(fn, (sw[0], sw[1]), tb):
                ck.bad("L4.2", "L4.2@write_iri#unguarded-pname", "`prefix:local` is written outside the Some(..) arm of the "
                       "checked prefix lookup", "%s:%s" % (tt["file"], tt["line"]))
            else:
                ck.ok("L4.2-guard", "`{}:{}` only in the Some arm")
        elif shape == "<{}>":
            ck.ok("L4.2-guard", "`<{}>` fallback", nontrivial=False)
        else:
            ck.bad("L4.2", "L4.2@write_iri#template", "unexpected output template %r in write_iri" % shape,
                   "%s:%s" % (tt["file"], tt["line"]))
    if "{}:{}" not in seen_templates or "<{}>" not in seen_templates:
        ck.bad("L4.2", "L4.2@write_iri#templates-missing", "expected both `{}:{}` and `<{}>` emissions in write_iri "
               "(found %r)" % seen_templates, fn.loc)
    # L4.3: write_iri serves every IRI position (predicate, datatype, graph name, components of quoted triples, ...): it must
    # not emit anything but the two IRI forms - in particular no `()` / `a` / `[]` abbreviation, which the grammar allows in
    # some positions only
    from mirutil import const_bytes_of
    consts = []
    for bi2, t2 in fn.calls():
        if call_name_matches(t2, r"write_bytes$|io::Write::write_all$|fmt::Write::write_str$") and len(t2["args"]) > 1:
            c = const_bytes_of(fn, t2["args"][1])
            consts.append((c if c is not None else "<non-constant>", "%s:%s" % (t2["file"], t2["line"])))
    if consts:
        ck.bad("L4.3", "L4.3@write_iri#abbreviation:%s" % consts[0][0],
               "write_iri writes %r: it is called for predicates, datatypes, graph names and components of quoted triples, where "
               "Turtle/TriG require `<iri>` or `prefix:local` (an abbreviation such as `()` for rdf:nil is only legal for subjects, "
               "objects and list items)" % consts[0][0], consts[0][1])
    else:
        ck.ok("L4.3", "write_iri emits only `<iri>` / `prefix:local` (position-dependent abbreviations are not its business)")


def prefix_rule(ck, facts, rl, owners):
    fn = find_one(ck, facts, "L4.2", "sophia_api", r"prefix::_regex::is_valid_prefix$", "is_valid_prefix")
    if fn is not None:
        try:
            expr, names = predicate_expr(facts, fn, rl, owners)
            rl.lang("TTL_PN_PREFIX_OR_EMPTY", G.anch(G.opt(G.PN_PREFIX)))
            rl.empty("L4.2:is_valid_prefix<=PN_PREFIX?", "& %s ! TTL_PN_PREFIX_OR_EMPTY" % expr)
            ck.ok("L4.2-check", "is_valid_prefix = %s" % expr)
        except CheckError as e:
            ck.bad("L4.2", "L4.2@is_valid_prefix#shape", str(e), fn.loc)
    pn = find_one(ck, facts, "L4.2", "sophia_api", r"prefix::_wrapper::Prefix::<T>::new$", "Prefix::new")
    if pn is not None:
        import c09
        c09.constructor_rule(ck, facts, pn, "is_valid_prefix", "Prefix::new")


def list_item_rule(ck, facts):
    """R4.3: the verdict of `list_item` (may this node be written inside `( .. )`?) depends on each class of arc the node
    has: (a) an arc that is neither rdf:first nor rdf:rest leads to `None`; (b) a second rdf:first leads to `None`;
    (c) the rdf:rest arcs are *counted*: the rdf:rest branch changes a state that is tested before `Some(item)` is returned
    (a branch that merely continues makes nodes with zero, one or several rdf:rest arcs indistinguishable, and the
    collection syntax can express exactly one).  Necessary conditions for the round trip of malformed lists."""
    fn = find_one(ck, facts, "R4.3", "sophia_turtle", r"serializer::_pretty::list_item$", "list_item")
    if fn is None:
        return
    key = "R4.3@list_item"

    def eq_switch(static_suffix):
        for bi in range(len(fn.blocks)):
            bs = bool_switch(fn, bi)
            if bs and bs[0][0] == "call" and call_name_matches(bs[0][1], r"cmp::PartialEq(<.*>)?>?::eq$"):
                ct = bs[0][1]
                cs = [provenance(fn, a)[-1] for a in ct["args"]]
                if any(c[0] == "const" and c[1].get("kind") == "static" and c[1]["def"].endswith(static_suffix) for c in cs) \
                        and any(comes_from_call(fn, a, r"Quad>?::p$") for a in ct["args"]):
                    return bi, bs
        return None
    rest, first = eq_switch("rdf::rest"), eq_switch("rdf::first")
    if rest is None or first is None:
        ck.bad("R4.3", key + "#shape", "list_item does not compare the predicate of each arc with rdf:first and rdf:rest", fn.loc)
        return
    loop_heads = {bi for bi, t in fn.calls() if call_name_matches(t, r"iter::Iterator>?::next$|Iterator>::next$")}
    none_rets = {bi for bi, b in enumerate(fn.blocks) for st in b["s"]
                 if st[0] == "=" and st[1] == [0] and st[2][0] == "agg" and st[2][1].get("vname") == "None"}
    # (a) neither first nor rest -> None, without going round the loop
    other = fn.reachable(first[1][2], avoid=loop_heads)
    if other & none_rets and not (other & loop_heads):
        ck.ok("R4.3", "list_item: an arc that is neither rdf:first nor rdf:rest -> None")
    else:
        ck.bad("R4.3", key + "#other-arc", "an arc that is neither rdf:first nor rdf:rest does not make list_item answer None: "
               "the extra statement would be lost when the node is written inside ( )", fn.loc)
    # (c) the rest branch has an effect that is tested on the way to returning the item
    region = fn.reachable(rest[1][1], avoid=loop_heads | {first[0]})
    assigned = set()
    for bi in region:
        for st in fn.blocks[bi]["s"]:
            if st[0] == "=" and len(st[1]) == 1 and fn.locals[st[1][0]].get("name"):
                assigned.add(st[1][0])
    from c19 import tainted_locals
    taint = tainted_locals(fn, assigned) if assigned else set()
    tested = False
    for bi, b in enumerate(fn.blocks):
        t = b["t"]
        if t["t"] == "switch" and t["on"][0] != "k" and t["on"][1][0] in taint and bi not in region:
            tested = True
    if region & none_rets and not assigned:
        ck.ok("R4.3", "list_item: an rdf:rest arc is rejected outright")       # (a stricter, still sound policy)
    elif tested:
        ck.ok("R4.3", "list_item: rdf:rest arcs are counted and the count is tested before the item is returned")
    else:
        ck.bad("R4.3", key + "#rest-not-counted", "the rdf:rest branch of list_item has no effect on its verdict: a node with several "
               "(or no) rdf:rest arcs is accepted as a list node, and ( ) can express exactly one", fn.loc)
    # (b) a second rdf:first -> None: the first branch is guarded by a test of the item found so far
    guarded = False
    reg_f = fn.reachable(first[1][1], avoid=loop_heads)
    for bi in reg_f:
        bs = bool_switch(fn, bi)
        if bs and bs[0][0] == "call" and call_name_matches(bs[0][1], r"Option::<T>::(is_none|is_some)$"):
            guarded = True
        if fn.blocks[bi]["t"]["t"] == "switch" and (fn.blocks[bi]["t"].get("variants") or {}).get("enum") == "core::option::Option":
            guarded = True
    if guarded and (reg_f & none_rets):
        ck.ok("R4.3", "list_item: a second rdf:first -> None")
    else:
        ck.bad("R4.3", key + "#second-first", "a second rdf:first arc does not make list_item answer None", fn.loc)


def run_ints(fn, env, upvals, on_stmt, max_steps=500):
    """Tiny evaluator for code whose control depends only on small integers (a position 0..3) through comparisons with
    constants: `env` maps locals to ints, `upvals` maps a captured-variable index to an int (closure bodies read them as
    `*(_1.k)`).  `on_stmt(st, env)` is called before each statement and may return a result to stop.  Unknown values are
    None; a switch on an unknown value aborts with "unknown".  A finite evaluation of an abstraction, not execution."""
    env = dict(env)
    upref = {}
    bi = 0
    for _ in range(max_steps):
        b = fn.blocks[bi]

        def val(op):
            if op[0] == "k":
                return int(op[1]["v"]) if op[1].get("kind") == "int" else None
            pl = op[1]
            if len(pl) == 1:
                return env.get(pl[0])
            if len(pl) == 2 and pl[1] == "*" and pl[0] in upref:
                return upvals.get(upref[pl[0]])
            return None
        for st in b["s"]:
            r = on_stmt(st, env)
            if r is not None:
                return r
            if st[0] != "=" or len(st[1]) != 1:
                continue
            d, rv = st[1][0], st[2]
            if rv[0] == "use":
                op = rv[1]
                m = re.match(r"f(\d+):", op[1][1]) if op[0] != "k" and len(op[1]) == 2 and op[1][0] == 1 and isinstance(op[1][1], str) else None
                if m and fn.kind == "Closure":
                    upref[d] = int(m.group(1))
                    env[d] = None
                else:
                    env[d] = val(op)
            elif rv[0] == "bin":
                a, c = val(rv[2]), val(rv[3])
                r2 = None
                if a is not None and c is not None:
                    r2 = {"Eq": a == c, "Ne": a != c, "Lt": a < c, "Le": a <= c, "Gt": a > c, "Ge": a >= c,
                          "BitOr": a | c, "BitAnd": a & c}.get(rv[1])
                env[d] = None if r2 is None else int(r2)
            elif rv[0] == "un" and rv[1] == "Not":
                a = val(rv[2])
                env[d] = 1 - a if a in (0, 1) else None
            else:
                env[d] = None
        t = b["t"]
        k = t["t"]
        if k in ("goto", "drop", "assert"):
            bi = t["to"]
        elif k == "switch":
            v = val(t["on"])
            if v is None:
                return "unknown"
            nxt = t["else"]
            for sv, tb in t["vals"]:
                if int(sv) == v:
                    nxt = tb
            bi = nxt
        elif k == "call":
            if t["to"] is None:
                return "diverges"
            if len(t["dest"]) == 1:
                env[t["dest"][0]] = None
            bi = t["to"]
        else:
            return "end"
    return "unknown"


def position_table_rule(ck, facts):
    """R4.4: a blank node used as predicate or as graph name keeps its label (it cannot be written as `[ .. ]` there): the
    `bad` flag of a new BnodeProfile, as a function of the position i of the occurrence (0..3), is true for i = 1 and i = 3,
    and BnodeProfile::update_positions sets it for pos = 1 and pos = 3.  Both decided by evaluating the four cases."""
    want = {0: 0, 1: 1, 2: 0, 3: 1}
    parent = find_one(ck, facts, "R4.4", "sophia_turtle", r"serializer::_pretty::build_labelled$", "build_labelled")
    if parent is not None:
        done = False
        for c in facts.with_closures(parent)[1:]:
            aggs = [st for b in c.blocks for st in b["s"] if st[0] == "=" and st[1] == [0] and st[2][0] == "agg"
                    and st[2][1].get("def", "").endswith("_pretty::BnodeProfile")]
            ups = sorted({int(re.match(r"f(\d+):", st[2][1][1][1]).group(1)) for b in c.blocks for st in b["s"]
                          if st[0] == "=" and st[2][0] == "use" and st[2][1][0] != "k" and len(st[2][1][1]) == 2
                          and st[2][1][1][0] == 1 and isinstance(st[2][1][1][1], str) and re.match(r"f\d+:", st[2][1][1][1])
                          and c.locals[st[1][0]]["ty"] in ("&usize", "&mut usize")})
            if not aggs or len(ups) != 1:
                continue
            bad_op = aggs[0][2][2][0]
            got = {}
            for i in range(4):
                def on_stmt(st, env, _agg=aggs[0]):
                    if st is _agg:
                        return ("val", env.get(bad_op[1][0]) if bad_op[0] != "k" else int(bad_op[1]["v"]))
                    return None
                r = run_ints(c, {}, {ups[0]: i}, on_stmt)
                got[i] = r[1] if isinstance(r, tuple) else None
            done = True
            if got == want:
                ck.ok("R4.4", "new BnodeProfile: bad(position) = %s (predicate and graph-name occurrences keep their label)" % got)
            else:
                ck.bad("R4.4", "R4.4@build_labelled#first-occurrence", "a blank node first met at position i gets bad=%s; positions 1 "
                       "(predicate) and 3 (graph name) must force a label: such a node cannot be written as `[ .. ]` there" % got, c.loc)
        if not done:
            ck.bad("R4.4", "R4.4@build_labelled#shape", "cannot find the closure that creates a BnodeProfile from the position", parent.loc)
    fn = find_one(ck, facts, "R4.4", "sophia_turtle", r"_pretty::BnodeProfile::<'a>::update_positions$", "BnodeProfile::update_positions")
    if fn is not None:
        got = {}
        for pos in range(4):
            hit = {"bad": 0}

            def on_stmt(st, env):
                if st[0] == "=" and len(st[1]) > 1 and st[1][0] == 1 and str(st[1][-1]).endswith(":bad") \
                        and st[2][0] == "use" and st[2][1][0] == "k" and st[2][1][1].get("v") == "1":
                    hit["bad"] = 1
                return None
            r = run_ints(fn, {2: pos}, {}, on_stmt)
            got[pos] = hit["bad"] if r in ("end",) else (hit["bad"] if r != "unknown" else None)
        # positions 1 and 3 must set the flag; 0 and 2 may (second predecessor) but not unconditionally on the first call
        if got.get(1) == 1 and got.get(3) == 1:
            ck.ok("R4.4", "update_positions: a further occurrence as predicate or graph name sets bad (%s)" % got)
        else:
            ck.bad("R4.4", "R4.4@update_positions#positions", "update_positions(pos) sets bad=%s; positions 1 and 3 must always set it" % got, fn.loc)


def prefixed_pair_rule(ck, facts):
    """<[(P,N)] as PrefixMap>::get_checked_prefixed_pair: the pair stored is (prefix of entry e, iri[len(ns_e)..])
    under starts_with(iri, ns_e) and suffix_check(suffix) of the same iteration."""
    fn = find_one(ck, facts, "R4.2", "sophia_api", r"<\[\(P, N\)\] as prefix::_prefix_map::PrefixMap>::get_checked_prefixed_pair$",
                  "[(P,N)]::get_checked_prefixed_pair")
    if fn is None:
        return
    key = "R4.2@get_checked_prefixed_pair"
    somes = [x for x in blocks_with_agg(fn, "core::option::Option", "Some")]
    # keep those whose payload is a 2-tuple (prefix, suffix)
    cands = []
    found_local = None
    for bi, si, dest, ops in somes:
        o = fn.origin(ops[0])
        if o[0] == "agg" and o[1]["k"] == "tuple" and len(o[2]) == 2 and comes_from_call(fn, o[2][0], r"AsPrefix>?::as_prefix$"):
            cands.append((bi, o))
            found_local = dest[0] if dest else None
    if len(cands) != 1:
        ck.bad("R4.2", key + "#shape", "shape not recognised: expected exactly one `Some((prefix, suffix))` (found %d)" % len(cands), fn.loc)
        return
    bi, tup = cands[0]
    p_o = comes_from_call(fn, tup[2][0], r"AsPrefix>?::as_prefix$")
    s_o = fn.origin(tup[2][1])
    if not p_o:
        ck.bad("R4.2", key + "#prefix", "first component is not `p.as_prefix()`", fn.loc)
        return
    if not (s_o[0] == "call" and call_name_matches(s_o[1], r"ops::Index<I> for str>::index$|ops::Index<.*>>::index$")):
        ck.bad("R4.2", key + "#suffix", "suffix is not a slice `&iri[..]`", fn.loc)
        return
    idx = s_o[1]
    base = provenance(fn, idx["args"][0])[-1]
    rng = fn.origin(idx["args"][1])
    ok = base[0] == "param" and base[1] == 2
    if not (rng[0] == "agg" and rng[1].get("vname") == "RangeFrom"):
        ck.bad("R4.2", key + "#range", "suffix is not `&iri[k..]`", fn.loc)
        return
    start = fn.origin(rng[2][0])
    if not (start[0] == "call" and call_name_matches(start[1], r"str>::len$")):
        ck.bad("R4.2", key + "#cut", "suffix does not start at `ns.len()`", fn.loc)
        return
    def last_place(chain):
        for o in reversed(chain):
            if o[0] == "place":
                return o
        return chain[-1]
    ns_item = last_place(provenance(fn, start[1]["args"][0]))      # the loop item (n) behind n_str
    p_item = last_place(provenance(fn, p_o[1]["args"][0]))
    # both must project the *same* loop item: origin = place rooted at the Iterator::next result
    def root(o):
        return (o[0], tuple(o[1][:1]) if o[0] == "place" and o[1] else None)
    if ns_item[0] != "place" or p_item[0] != "place" or ns_item[1][0] != p_item[1][0]:
        ck.bad("R4.2", key + "#same-entry", "prefix and namespace do not come from the same map entry", fn.loc)
        return
    nf = [x for x in ns_item[1][1:] if x.startswith("f")]
    pf = [x for x in p_item[1][1:] if x.startswith("f")]
    if not (nf and pf and nf[-1].startswith("f1") and pf[-1].startswith("f0")):
        ck.bad("R4.2", key + "#fields", "prefix must be field 0 and namespace field 1 of the entry", fn.loc)
        return
    # guards: starts_with(iri, ns) true edge and suffix_check(suffix) true edge dominate the block
    guards = {"starts_with": False, "suffix_check": False}
    for cand in sorted(fn.dominators().get(bi, ())):
        bs = bool_switch(fn, cand)
        if not bs or bs[0][0] != "call":
            continue
        ct = bs[0][1]
        if call_name_matches(ct, r"str>::starts_with$"):
            a0 = provenance(fn, ct["args"][0])[-1]
            a1 = last_place(provenance(fn, ct["args"][1]))
            if a0[0] == "param" and a0[1] == 2 and a1 == ns_item and edge_dominates(fn, (cand, bs[1]), bi):
                guards["starts_with"] = True
        if call_name_matches(ct, r"ops::Fn::call$|ops::Fn<.*>>::call$"):
            f0 = provenance(fn, ct["args"][0])[-1]
            arg = fn.origin(ct["args"][1])
            if f0[0] == "param" and f0[1] == 3 and arg[0] == "agg" and arg[1]["k"] == "tuple":
                chk = fn.origin(arg[2][0])
                if chk[0] == "call" and chk[1] is idx and edge_dominates(fn, (cand, bs[1]), bi):
                    guards["suffix_check"] = True
    for g, v in guards.items():
        if not v:
            ck.bad("R4.2", key + "#guard-" + g, "`found = Some((prefix, suffix))` is not guarded by %s of the same entry/suffix" % g, fn.loc)
            return
    ck.ok("R4.2", "get_checked_prefixed_pair: Some((e.prefix, iri[e.ns.len()..])) under starts_with(iri, e.ns) && check(suffix)")
    # the returned value is `found` mapped by a closure that keeps (p, s) in order
    ret = [t for _, t in fn.calls() if t["dest"] == [0]]
    if len(ret) == 1 and call_name_matches(ret[0], r"Option::<T>::map$"):
        clo = fn.origin(ret[0]["args"][1])
        cfn = facts.fns.get(clo[1]["def"]) if clo[0] == "agg" and clo[1]["k"] == "closure" else None
        good = False
        if cfn is not None:
            for b in cfn.blocks:
                for s in b["s"]:
                    if s[0] == "=" and s[1] == [0] and s[2][0] == "agg" and s[2][1]["k"] == "tuple" and len(s[2][2]) == 2:
                        a = provenance(cfn, s[2][2][0])[-1]
                        c = provenance(cfn, s[2][2][1])[-1]
                        if a[0] == "param" and a[2] and a[2][0].startswith("f0") and c[0] == "param" and c[2] and c[2][0].startswith("f1"):
                            good = True
        if good:
            ck.ok("R4.2", "result = found.map(|(p, s)| (p, own(s)))")
        else:
            ck.bad("R4.2", key + "#result-map", "the closure mapping the found pair does not keep (prefix, suffix)", fn.loc)
    else:
        # the same thing spelled `match found { Some((p, s)) => Some((p, own(s))), None => None }`
        from mirutil import TRANSPARENT
        good = bad = 0
        for bi2, si2, dest2, ops2 in somes:
            if dest2 != [0]:
                continue
            o = fn.origin(ops2[0])
            if not (o[0] == "agg" and o[1]["k"] == "tuple" and len(o[2]) == 2):
                bad += 1
                continue
            tr = TRANSPARENT + (r"ToOwned>?::to_owned$", r"ToOwned for .*>::to_owned$", r"ToString>?::to_string$", r"String::from$")
            from mirutil import forward_aliases
            found_locals = forward_aliases(fn, found_local) if found_local is not None else set()
            a = [x for x in provenance(fn, o[2][0], transparent=tr) if x[0] == "place"]
            c = [x for x in provenance(fn, o[2][1], transparent=tr) if x[0] == "place"]
            def field_of_found(chain, want):
                for x in chain:
                    fs = [q for q in x[1][1:] if q.startswith("f")]
                    if x[1][0] in found_locals and any(q.startswith("d1:Some") for q in x[1][1:]) and fs and fs[-1].startswith(want):
                        return True
                return False
            if field_of_found(a, "f0") and field_of_found(c, "f1"):
                good += 1
            else:
                bad += 1
        if good == 1 and bad == 0:
            ck.ok("R4.2", "result = match found { Some((p, s)) => Some((p, own(s))), None => None }")
        else:
            ck.bad("R4.2", key + "#result", "the function does not return the found (prefix, suffix) pair unchanged (`found.map(..)` or the "
                   "equivalent match)", fn.loc)


TURTLE_WS = {0x20, 0x09, 0x0D, 0x0A}


def char_predicate_set(facts, pred, fn=None):
    """For `Iterator::all(pred)`: the set of sample characters the predicate accepts, if `pred` is a workspace function / closure
    whose result depends on the character through comparisons only (evaluated with eval_pure for every constant it mentions,
    their neighbours and samples of Unicode white space); "std:<name>" if it is a std predicate; None otherwise."""
    from mirutil import eval_pure
    arg = 1
    if pred[0] == "k" and pred[1].get("kind") == "fn":
        d = pred[1].get("def", "")
    else:
        o = fn.origin(pred) if fn is not None else ("?",)
        if not (o[0] == "agg" and o[1].get("k") == "closure"):
            return None
        d, arg = o[1]["def"], 2
    f = facts.fns.get(d)
    if f is None:
        return "std:" + d.split("::")[-1]
    consts = set()
    for b in f.blocks:
        t = b["t"]
        if t["t"] == "switch" and t.get("ty") == "char":
            consts |= {int(v) for v, _ in t["vals"]}
        for st in b["s"]:
            if st[0] == "=" and st[2][0] == "bin":
                for op in st[2][2:4]:
                    if op[0] == "k" and op[1].get("kind") == "int" and op[1].get("ty") in ("char", "u32", "u8"):
                        consts.add(int(op[1]["v"]))
    sample = consts | {0x09, 0x0A, 0x0B, 0x0C, 0x0D, 0x20, 0x85, 0xA0, 0x1680, 0x2000, 0x200A, 0x2028, 0x2029, 0x202F, 0x205F, 0x3000, 0x41, 0x30}
    sample |= {c + dd for c in list(sample) for dd in (-1, 1) if c + dd >= 0}
    acc = set()
    for cp in sorted(sample):
        try:
            r, env = eval_pure(f, 0, 0, {arg: cp}, lambda b_: None, want_env=True)
        except CheckError:
            return None
        if r[0] != "term" or f.blocks[r[1]]["t"]["t"] != "ret":
            t = f.blocks[r[1]]["t"]
            if t["t"] == "call":
                return "std:" + (t["f"].get("name") or "?").split("::")[-1]
            return None
        if env.get(0) == 1:
            acc.add(cp)
        elif env.get(0) != 0:
            return None
    return acc


def indentation_rule(ck, facts):
    """R4.5: the indentation string is copied at the start of every line of the pretty output: it may only consist of the white
    space of the Turtle grammar (WS ::= #x20 | #x9 | #xD | #xA).  char::is_whitespace (Unicode) and is_ascii_whitespace (form feed)
    accept more."""
    n = 0
    for name_re, what in ((r"^serializer::turtle::TurtleConfig::with_indentation$", "TurtleConfig::with_indentation"),
                          (r"^serializer::_pretty::prettify$", "prettify")):
        fns = facts.find_fns(crate="sophia_turtle", name_re=name_re)
        if len(fns) != 1:
            ck.bad("R4.5", "R4.5@%s#anchor" % what, "anchor-missing (%d)" % len(fns))
            continue
        fn = fns[0]
        alls = [t for _, t in fn.calls() if call_name_matches(t, r"iter::Iterator::all$")]
        if len(alls) != 1:
            ck.bad("R4.5", "R4.5@%s#anchor" % what, "anchor-missing: the `.chars().all(..)` test of the indentation (%d)" % len(alls), fn.loc)
            continue
        n += 1
        acc = char_predicate_set(facts, alls[0]["args"][1], fn)
        if isinstance(acc, set) and acc and acc <= TURTLE_WS:
            ck.ok("R4.5", "%s accepts only %s" % (what, sorted("U+%04X" % c for c in acc)))
        else:
            ck.bad("R4.5", "R4.5@%s#indentation-not-turtle-ws" % what, "%s validates the indentation with %s: characters that are not white space "
                   "in Turtle (U+00A0, U+000C, U+2028 ...) are accepted and copied at the start of every line, and the document does not "
                   "parse" % (what, acc if isinstance(acc, str) else ("a predicate accepting %s" % sorted("U+%04X" % c for c in acc) if acc else "an unrecognised predicate")), fn.loc)
    ck.floor("R4.5", "indentation checks", n, 2)


def run(ck, facts, tier):
    facts.require_crates(["sophia_turtle", "sophia_api"])
    owners = patterns_by_owner(facts, ["sophia_turtle", "sophia_api"])
    ck.trusted = ["rustc (constant evaluation, MIR)", "regex-syntax 0.8.11 + regex-automata 0.4.18",
                  "Turtle 1.1 / XSD 1.1 terminal transcriptions in /verif/rules/grammars.py",
                  "rio_turtle's Turtle/TriG parser implements the W3C grammar"]
    ck.assumptions = ["the Turtle/TriG reader used for the round trip implements the W3C terminals as transcribed",
                      "heuristics for lists, inlined blank nodes and annotations are not decided (see DESIGN.md C04 ND)"]
    indentation_rule(ck, facts)
    rl = Relang()
    for n in ("TTL_INTEGER", "TTL_DECIMAL", "TTL_DOUBLE", "TTL_BOOLEAN", "XSD_INTEGER", "XSD_DECIMAL", "XSD_DOUBLE",
              "XSD_BOOLEAN"):
        rl.lang(n, G.anch(getattr(G, n)))
    rl.lang("TTL_PN_LOCAL_NOESC", G.anch(G.PN_LOCAL_NOESC))
    # reference sanity: the four Turtle shorthand productions are pairwise disjoint
    prods = ["TTL_INTEGER", "TTL_DECIMAL", "TTL_DOUBLE", "TTL_BOOLEAN"]
    for i in range(4):
        for j in range(i + 1, 4):
            rl.disjoint("L4.1:ref-disjoint:%s/%s" % (prods[i], prods[j]), prods[i], prods[j])
    literal_rule(ck, facts, rl, owners)
    iri_rule(ck, facts, rl, owners)
    prefix_rule(ck, facts, rl, owners)
    prefixed_pair_rule(ck, facts)
    list_item_rule(ck, facts)
    position_table_rule(ck, facts)
    linfo, res = rl.run()
    for name, info in linfo.items():
        if not info.get("ok"):
            raise CheckError("language %s does not compile: %s" % (name, info.get("error")))
    for oid, r in sorted(res.items()):
        held = r["empty"]
        ck.obligation(oid, held, "" if held else "counter-examples: %r" % r["witnesses"], witnesses=r["witnesses"],
                      product_states=r["product_states"])
        if not held:
            ck.findings.append(Finding("L4", "L4@%s" % oid, "language obligation %s fails; shortest counter-examples: %s" % (
                oid, ", ".join(repr(w) for w in r["witnesses"])), "turtle/src/serializer/_pretty.rs", dict(witnesses=r["witnesses"])))
