"""C08 — parsers are total: validator languages, panic sites and accessor tables of the workspace's adapter code."""
import re
import grammars as G
import panics
import termimpls
from core import Relang, CheckError, Finding
from mirutil import forward_aliases as forward_aliases_, patterns_by_owner, union_pattern, predicate_expr, blocks_with_agg, call_name_matches, provenance, result_edges, leaf_calls, used_after_failure

LEVEL = "other"
EXPLANATION = (
    "Decides three clauses of C08 for the workspace's own adapter code (the pinned back-ends rio_turtle, rio_xml, json-ld, "
    "oxiri are a trusted base). (L8.1, exhaustive over all strings) every validator accepts every token its back-end can "
    "certainly deliver: RFC 3987 IRI / IRI-reference for IRIs, the label language a dot-lookahead tokenizer completes, "
    "SPARQL VARNAME, Turtle LANGTAG ∩ BCP47 and all of BCP47 for json-ld — otherwise `new_unchecked` / "
    "`debug_assert!(X::new(..).is_ok())` on back-end output panics in debug builds and yields invalid 'validated' values "
    "in release. (R8.2) panic audit: every unwrap/expect, panic macro, Index call and bounds/overflow assert in the "
    "functions reachable from the parser adapters (rio model/parser, turtle/xml/jsonld parsers, jsonld vocabulary) is "
    "auto-discharged (accessor under the matching kind() arm, Regex::new(const), constant index, slice after "
    "starts_with, callee that always returns Some), discharged by L8.1, or matched by exact key against the audited "
    "table; anything else is a violation; an unchecked construction resting on a back-end guarantee that a reproduced "
    "counter-example has refuted (table REFUTED_BACKEND_GUARANTEES) is reported. (R8.5) every impl Term overrides the accessors of each kind its kind() can "
    "return. NOT decided: termination, stack use and panics *inside* the third-party parsers.")

# audited sites: key -> (max occurrences, reason)
TABLE = {
    "<parser::JsonLdParser<LF> as sophia_api::parser::QuadParser<B>>::parse_str#unwrap:expect:call:tokio::runtime::Builder::build":
        (1, "building a current-thread tokio runtime fails only on OS resource exhaustion, not on any input"),
    "<loader::static_loader::StaticLoader<I, S> as json_ld::Loader<I, locspan::Location<I, S>>>::load_with::{closure#0}::{closure#1}#unwrap:unwrap:call:core::str::<impl str>::parse":
        (1, "parses the constant \"application/ld+json\""),
    "<vocabulary::ArcVoc as rdf_types::IriVocabulary>::iri#unwrap:unwrap:call:iref::Iri::<'a>::new":
        (1, "re-parses an ArcIri: built by get() from an iref::Iri, or one of the two configured IRIs (document URL, base option), which "
            "parse_json hands to iref first and refuses with an error (R8.10).  The earlier reason 'sophia-valid => RFC 3987, which iref "
            "accepts' was refuted: iref 2.2.3 knows only the lower-case `v` of IPvFuture (`http://[V1.a]/`)"),
    "<vocabulary::ArcVoc as rdf_types::BlankIdVocabulary>::blank_id#unwrap:unwrap:call:rdf_types::BlankId::new":
        (1, "ArcBnode values are only constructed by get_blank_id from a valid rdf_types::BlankId (R8.6)"),
    "<vocabulary::ArcVoc as rdf_types::LanguageTagVocabulary>::language_tag#unwrap:unwrap:call:langtag::LanguageTag::<'a>::parse":
        (1, "on the parser path every ArcTag comes from get_language_tag(langtag::LanguageTag)"),
    "<parser::turtle::TurtleParser as sophia_api::parser::TripleParser<B>>::parse#unwrap:fnref:unwrap:arg-of:std::option::Option::<T>::map":
        (1, "configured base Iri<String> re-parsed by oxiri: sophia-valid => RFC 3987 (L9.1.sub, re-checked here) => oxiri accepts (A9)"),
    "<parser::trig::TriGParser as sophia_api::parser::QuadParser<B>>::parse#unwrap:fnref:unwrap:arg-of:std::option::Option::<T>::map":
        (1, "configured base, as for TurtleParser"),
    "<parser::gtrig::GTriGParser as sophia_api::parser::QuadParser<B>>::parse#unwrap:fnref:unwrap:arg-of:std::option::Option::<T>::map":
        (1, "configured base, as for TurtleParser"),
    "<parser::RdfXmlParser as sophia_api::parser::TripleParser<B>>::parse#unwrap:fnref:unwrap:arg-of:std::option::Option::<T>::map":
        (1, "configured base, as for TurtleParser"),
}
TABLE.update({
    # only compiled with the `file_url` feature (seen by the thorough tier)
    "<loader::file_url_loader::FileUrlLoader as json_ld::Loader<sophia_iri::Iri<std::sync::Arc<str>>, locspan::Location<sophia_iri::Iri<std::sync::Arc<str>>>>>::load_with::{closure}#unwrap:unwrap:call:rdf_types::IriVocabulary::iri":
        (1, "as for ClosureLoader: the vocabulary re-resolves the very ArcIri the json-ld processor handed to the loader"),
    "<loader::file_url_loader::FileUrlLoader as json_ld::Loader<sophia_iri::Iri<std::sync::Arc<str>>, locspan::Location<sophia_iri::Iri<std::sync::Arc<str>>>>>::load_with::{closure}#unwrap:unwrap:call:core::str::<impl str>::parse":
        (1, "parses the constant \"application/ld+json\""),
    "<loader::closure_loader::ClosureLoader<F> as json_ld::Loader<sophia_iri::Iri<std::sync::Arc<str>>, locspan::Location<sophia_iri::Iri<std::sync::Arc<str>>>>>::load_with::{closure#0}#unwrap:unwrap:call:rdf_types::IriVocabulary::iri":
        (1, "the vocabulary re-resolves the very ArcIri the json-ld processor handed to the loader (ArcVoc::iri re-parses with iref a string that "
            "came from iref)"),
    "<loader::closure_loader::ClosureLoader<F> as json_ld::Loader<sophia_iri::Iri<std::sync::Arc<str>>, locspan::Location<sophia_iri::Iri<std::sync::Arc<str>>>>>::load_with::{closure#0}#unwrap:unwrap:call:core::str::<impl str>::parse":
        (1, "parses the constant \"application/ld+json\""),
    "parser::adapter::try_convert_quad#index:str:RangeFrom":
        (1, "`&bnode[2..]` strips the `_:` every rdf_types::BlankId starts with (its constructor checks the prefix)"),
    "<vocabulary::ArcBnode as sophia_api::prelude::Term>::bnode_id#index:str:RangeFrom":
        (1, "`&self[2..]` strips the `_:` every rdf_types::BlankId starts with (ArcBnode is only built from one, R8.6)"),
    "<vocabulary::ArcBnode as sophia_api::prelude::Term>::borrow_term#index:str:RangeFrom":
        (1, "as bnode_id"),
})
# Token classes for which assumption A8 ("the back-end hands over only tokens of its normative grammar") is known to be false:
# the unchecked construction (guarded by a debug_assert only) then panics in debug builds and yields an invalid "validated"
# value in release builds.  Each entry was reproduced against the real parsers (findings/C08_backend_tokens_panic.rs).
REFUTED_BACKEND_GUARANTEES = {
    "model::bnode_id#validator-call:BnodeId:call:std::convert::Into::into":
        "rio hands over blank node labels outside BNODE_ID: rio_turtle keeps a trailing `.` when the next character is a non-ASCII "
        "one that is not a name character (`<a:s> <a:p> _:a.\u00D7` yields the label `a.` before reporting the syntax error) and "
        "rio_xml accepts `rdf:nodeID=\"a.\"`; model::bnode_id then panics (debug_assert) in debug builds and builds an invalid BnodeId "
        "in release builds",
    "<vocabulary::ArcVoc as rdf_types::IriVocabulary>::get#validator-call:Iri:call:std::convert::From::from":
        "json-ld's IRI type (iref) accepts strings that are not RFC 3987 IRIs (`http://[v1.\u200e]/p`: a bidi mark inside an IPvFuture "
        "literal): ArcVoc::get wraps it with Iri::new_unchecked, whose debug-build re-validation panics (and which is an invalid Iri in "
        "release builds)",
    "model::iri#validator-call:IriRef:call:std::convert::Into::into":
        "rio_xml builds property IRIs by concatenating an unvalidated namespace (`xmlns:z=\"not an iri \"` + `z:p`); rio_turtle does not "
        "validate the concatenation of a namespace and a prefixed name's local part either (legal Turtle/TriG `ex:a\\#b` under a `...#` "
        "namespace, `ex:100\\%`, `ex:caf\uFFFD`, `@prefix ex: <http://example.org:> . ex:p`), and GTriG without a base (the default) "
        "copies whatever stands between `<` and `>` (spaces, `{`, a bare `%`): model::iri panics (debug_assert) in debug builds and "
        "builds an invalid IriRef in release builds",
    "<vocabulary::ArcVoc as rdf_types::LanguageTagVocabulary>::get_language_tag#validator-call:LanguageTag:call:std::convert::From::from":
        "json-ld's language tag type (langtag 0.3) accepts tags with empty subtags (`-nan`, `be--phonebk`, `-oed`), which LANG_TAG rejects: "
        "ArcVoc::get_language_tag wraps them with LanguageTag::new_unchecked, whose check is an unconditional assert!: the parser panics in "
        "every build on `{\"@value\":\"x\",\"@language\":\"-nan\"}`",
    "model::datatype#validator-call:IriRef:call:std::convert::Into::into":
        "same unvalidated prefixed-name concatenation in datatype position (`\"x\"^^ex:a\\#b`): model::datatype panics (debug_assert, "
        "rio/src/model.rs:135) in debug builds and builds an invalid IriRef in release builds",
}
# validator-call sites (X::new_unchecked(arg)): key -> (validator language obligation that discharges it, reason)
VALIDATOR_CALLS = {
    "model::bnode_id#validator-call:BnodeId:call:std::convert::Into::into": ("L8.1:label", "rio blank node label"),
    "model::iri#validator-call:IriRef:call:std::convert::Into::into": ("L8.1:iri-ref", "rio NamedNode (possibly relative in generalized parsers)"),
    "model::datatype#validator-call:IriRef:call:std::convert::Into::into": ("L8.1:iri-ref", "rio datatype IRI (always absolute)"),
    "model::variable#validator-call:VarName:call:std::convert::Into::into": ("L8.1:varname", "rio variable name"),
    "model::language_tag#validator-call:LanguageTag:call:std::convert::Into::into": ("L8.1:langtag", "rio language tag (oxilangtag-validated)"),
    "<vocabulary::ArcVoc as rdf_types::IriVocabulary>::get#validator-call:Iri:call:std::convert::From::from": ("L8.1:iri-abs", "iref::Iri (absolute)"),
    "parser::JsonLdParser::<LF>::parse_json::{closure#0}#validator-call:Iri:call:std::convert::From::from":
        ("L8.1:const:x-bnode-gen://", "the constant location IRI of the blank node generator"),
    "<loader::closure_loader::ClosureLoader<F> as json_ld::Loader<sophia_iri::Iri<std::sync::Arc<str>>, locspan::Location<sophia_iri::Iri<std::sync::Arc<str>>>>>::load_with::{closure#0}#validator-call:Iri:call:std::string::ToString::to_string":
        ("L8.1:iri-abs", "the URL of a remote context, an ArcIri that ArcVoc::get wrapped earlier: same token class as (and downstream of) the known "
                         "finding on ArcVoc::get"),
    "<vocabulary::ArcVoc as rdf_types::LanguageTagVocabulary>::get_language_tag#validator-call:LanguageTag:call:std::convert::From::from":
        ("L8.1:bcp47", "langtag::LanguageTag (any well-formed BCP47 tag)"),
    "<vocabulary::ArcVoc as rdf_types::LanguageTagVocabulary>::get_language_tag#validator-call:LanguageTag:map_unchecked":
        ("R8.9", "the vocabulary trait is infallible: the tag is wrapped unchecked here and validated by try_convert_quad before any quad is "
                 "delivered"),
    "<vocabulary::ArcBnode as sophia_api::prelude::Term>::bnode_id#validator-call:BnodeId:call:sophia_api::MownStr::<'a>::from_ref":
        ("R8.9", "json-ld relabels subjects, objects and graph names with its generator (`_:` + decimal counter), but with "
                 "produce_generalized_rdf it keeps the label of a blank node used as predicate, and rdf_types::BlankId allows ':': the "
                 "labels are validated by try_convert_quad before any quad is delivered"),
    "<vocabulary::ArcBnode as sophia_api::prelude::Term>::borrow_term#validator-call:BnodeId:call:std::ops::Index::index":
        ("R8.9", "as above"),
    "ns::_term::NsTerm::<'a>::iriref#validator-call:IriRef:place":
        ("R9.4", "NsTerm values come from Namespace::get (validates ns+suffix, C09 R9.4) or from the namespace! constants"),
    "term::_native_iri::<impl term::Term for sophia_iri::Iri<T>>::iri#validator-call:IriRef:call:mownstr::MownStr::<'a>::from_ref":
        ("L8.1:abs-in-ref", "an absolute IRI is an IRI reference"),
}
VALIDATOR_ASSERT = r"is_ok\((sophia_iri::Iri(Ref)?::<T>::new|sophia_api::term::(BnodeId|VarName|LanguageTag)::<T>::new)\)"
# debug assertions on back-end data: function -> (validator asserted, obligation)
ASSERTED = {
    "model::bnode_id": ("sophia_api::term::BnodeId::<T>::new", "L8.1:label"),
    "model::iri": ("sophia_iri::IriRef::<T>::new", "L8.1:iri-ref"),       # generalized parsers deliver relative references
    "model::datatype": ("sophia_iri::IriRef::<T>::new", "L8.1:iri-ref"),   # generalized parsers without a base deliver relative datatype IRIs
    #   (until the third hunt this entry demanded Iri::new, "rio always resolves datatype IRIs": an assumption about the back-end that GTriG
    #    without a base refutes: `@prefix : <foo/> . <s> :p "a"^^:bar .`)
    "model::variable": ("sophia_api::term::VarName::<T>::new", "L8.1:varname"),
    "model::language_tag": ("sophia_api::term::LanguageTag::<T>::new", "L8.1:langtag"),
}
SCOPE_FILES = r"rio/src/(model|parser)\.rs$|turtle/src/parser/|xml/src/parser\.rs$|jsonld/src/(parser|vocabulary|loader)"


def language_obligations(ck, facts):
    owners = patterns_by_owner(facts, ["sophia_api", "sophia_iri"])
    rl = Relang()
    names = {}

    def pred(last):
        fns = [f for f in facts.fns.values() if f.crate == "sophia_iri" and f.kind == "Fn" and f.name.split("::")[-1] == last]
        if len(fns) != 1:
            ck.bad("L8.1", "L8.1@%s#anchor" % last, "anchor-missing: %s" % last)
            return None
        e, _ = predicate_expr(facts, fns[0], rl, owners)
        return e

    def static(name, suffix):
        hits = [o for o in owners if o.endswith(suffix)]
        if len(hits) != 1:
            ck.bad("L8.1", "L8.1@%s#anchor" % name, "anchor-missing: regex static %s" % suffix)
            return None
        rl.lang(name, union_pattern([p["value"] for s in owners[hits[0]] for p in s["patterns"]]))
        return name
    try:
        abs_e = pred("is_absolute_iri_ref")
        ref_e = pred("is_valid_iri_ref")
    except CheckError as e:
        ck.bad("L8.1", "L8.1@iri-predicates#shape", str(e))
        abs_e = ref_e = None
    bn = static("REPO_BNODE_ID", "::BNODE_ID")
    lt = static("REPO_LANG_TAG", "::LANG_TAG")
    vn = static("REPO_VARNAME", "::VARNAME")
    rl.lang("RFC_IRI", G.anch(G.IRI))
    rl.lang("RFC_IRI_REFERENCE", G.anch(G.IRI_REFERENCE))
    rl.lang("MUST_LABEL", G.anch(G.MUST_LABEL))
    rl.lang("SPARQL_VARNAME", G.anch(G.VARNAME))
    rl.lang("TTL_LANGTAG", G.anch(G.LANGTAG_TTL))
    rl.lang("RFC5646", G.anch(G.RFC5646))
    rl.lang("GENERATED_LABEL", "^[0-9]+$")
    if abs_e:
        # constants wrapped with Iri::new_unchecked in the adapters must themselves be valid
        rl.lang("CONST_BNODE_GEN", "^x-bnode-gen://$")
        rl.empty("L8.1:const:x-bnode-gen://", "& CONST_BNODE_GEN ! %s" % abs_e)
        rl.empty("L8.1:iri-abs", "& RFC_IRI ! %s" % abs_e)
        rl.empty("L8.1:base-reparse(sophia<=RFC)", "& %s ! RFC_IRI" % abs_e)
    if ref_e:
        rl.empty("L8.1:iri-ref", "& RFC_IRI_REFERENCE ! %s" % ref_e)
    if abs_e and ref_e:
        rl.empty("L8.1:abs-in-ref", "& %s ! %s" % (abs_e, ref_e))
    if bn:
        rl.subset("L8.1:label", "MUST_LABEL", bn)
        rl.subset("L8.1:generated-label", "GENERATED_LABEL", bn)
    if vn:
        rl.subset("L8.1:varname", "SPARQL_VARNAME", vn)
    if lt:
        rl.empty("L8.1:langtag", "& & TTL_LANGTAG RFC5646 ! %s" % lt)
        rl.subset("L8.1:bcp47", "RFC5646", lt)
    linfo, res = rl.run()
    for name, info in linfo.items():
        if not info.get("ok"):
            raise CheckError("language %s does not compile: %s" % (name, info.get("error")))
    held = {}
    for oid, r in sorted(res.items()):
        base = oid[:-4] if oid.endswith((".sub", ".sup")) else oid
        held[base] = held.get(base, True) and r["empty"]
        ck.obligation(oid, r["empty"], "" if r["empty"] else "the back-end can deliver %r, which the validator rejects" % r["witnesses"],
                      witnesses=r["witnesses"], product_states=r["product_states"])
        if not r["empty"]:
            ck.findings.append(Finding("L8.1", "L8.1@" + oid, "validator obligation %s fails: token(s) %s can be delivered by the "
                                       "back-end but are rejected by the validator (debug-build panic in new_unchecked / invalid value "
                                       "in release)" % (oid, ", ".join(repr(w) for w in r["witnesses"]))))
    return held


# audited sites whose reason is a fact about this repository's code that a rule decides on every run
RULE_BACKED = panics.norm_table({
    "<vocabulary::ArcVoc as rdf_types::IriVocabulary>::iri#unwrap:unwrap:call:iref::Iri::<'a>::new": "R8.10",
})
VALIDATOR_CALLS = panics.norm_table(VALIDATOR_CALLS)
REFUTED_BACKEND_GUARANTEES = panics.norm_table(REFUTED_BACKEND_GUARANTEES)


def reparse_of_validated_iri(site):
    """`oxiri::Iri::parse(x).unwrap()` where x is the inner string of a sophia `Iri<_>` wrapper (`Iri::unwrap()`)"""
    fn = site.fn
    t = fn.blocks[site.bi]["t"]
    o = fn.origin(t["args"][0])
    if not (o[0] == "call" and call_name_matches(o[1], r"^oxiri::Iri::<T>::parse$")):
        return False
    for p in provenance(fn, o[1]["args"][0]):
        if p[0] == "call" and call_name_matches(p[1], r"^sophia_iri::_wrapper::Iri::<T>::unwrap$|^sophia_iri::Iri::<T>::unwrap$"):
            return True
    return False


CONVERSIONS = (r"convert::From(<[^>]*>)?>?::from$|convert::Into(<[^>]*>)?>?::into$|ToString::to_string$|MownStr::<'a>::from_ref$|"
               r"::ensure_owned$|ToOwned::to_owned$|Clone::clone$|\{impl#\d+\}::from$|\{impl#\d+\}::from_ref$")


def mapped_preserves(facts, fn, operand):
    """Is the function handed to a wrapper's `map_unchecked` a mere conversion of the wrapped string (a `From`/`Into`/`to_string` item, or a
    closure whose result is computed from its parameter)?  Otherwise the call builds a wrapper around a string that was never validated."""
    o = fn.origin(operand)
    if o[0] == "const" and o[1].get("kind") == "fn":
        nm = "%s %s" % (o[1].get("def", ""), o[1].get("ty", ""))
        return bool(re.search(CONVERSIONS, o[1].get("def", ""))) or bool(re.search(r"as std::convert::(From|Into)<[^{}]*>>::(from|into)\}$", nm)), nm
    if o[0] == "agg" and o[1].get("k") == "closure":
        cf = facts.fns.get(o[1]["def"])
        if cf is None:
            return False, "closure (no body)"
        names = leaf_calls(cf, ["m", [0]])
        return any(n.startswith("param:2") for n in names), "closure computing its result from %s" % (sorted(set(names)) or "nothing it was given")
    return False, o[0]


def unchecked_use_controls(ck):
    import core
    fx = core.fixture_facts()
    for name, expect in (("pos_used_after_failed_check", True), ("neg_refused_after_failed_check", False), ("neg_refused_with_match", False),
                         ("neg_refused_with_question_mark", False)):
        fn = core.fixture_fn(name)
        chk = [t for _, t in fn.calls() if call_name_matches(t, r"checked_token$")]
        use = [bi for bi, t in fn.calls() if call_name_matches(t, r"consume_token$")]
        ck.control("R8.9", name, len(chk) == 1 and used_after_failure(fn, chk[0], use), expect)
    for name, expect in (("pos_map_replaces_wrapped", True), ("neg_map_converts_wrapped", False), ("neg_map_converts_with_item", False)):
        fn = core.fixture_fn(name)
        calls = [t for _, t in fn.calls() if call_name_matches(t, r"::map_unchecked$")]
        ck.control("R8.2", name, len(calls) == 1 and not mapped_preserves(fx, fn, calls[0]["args"][1])[0], expect)


def json_ld_language_tags_rule(ck, facts):
    """R8.9: every quad json-ld delivers goes through try_convert_quad, which validates the language tag of a tagged literal with
    LanguageTag::new and refuses the document on failure (the vocabulary could only wrap it unchecked)."""
    tcq = [f for f in facts.fns.values() if f.crate == "sophia_jsonld" and re.search(r"parser::adapter::try_convert_quad$", f.name)]
    if len(tcq) != 1:
        ck.bad("R8.9", "R8.9@try_convert_quad#anchor", "anchor-missing: the checking conversion of json-ld quads (jsonld/src/parser/adapter.rs)")
        return False
    fn = tcq[0]
    ok = True
    conv = [(bi, t) for bi, t in fn.calls() if call_name_matches(t, r"parser::adapter::convert_quad$")]
    checks = [(bi, t) for bi, t in fn.calls() if call_name_matches(t, r"sophia_api::term::LanguageTag::<T>::new$")
              and any(n.startswith("param:1") for n in leaf_calls(fn, t["args"][0]))]
    labels = [(bi, t) for bi, t in fn.calls() if call_name_matches(t, r"sophia_api::term::BnodeId::<T>::new$")
              and any(n.startswith("param:1") for n in leaf_calls(fn, t["args"][0], limit=120))]
    if not conv or not checks or not labels:
        ck.bad("R8.9", "R8.9@try_convert_quad#shape", "try_convert_quad must validate the language tag and the blank node labels of its argument "
               "(LanguageTag::new, BnodeId::new) and then call convert_quad (found %d + %d validations of the parameter, %d conversions)"
               % (len(checks), len(labels), len(conv)), fn.loc)
        return False
    checks = checks + labels
    for bi, t in checks:
        u = used_after_failure(fn, t, [cb for cb, _ in conv])
        if u is None:
            ck.bad("R8.9", "R8.9@try_convert_quad#undecided", "the result of LanguageTag::new is not decided", "%s:%s" % (t["file"], t["line"]))
            ok = False
            continue
        if u:
            ck.bad("R8.9", "R8.9@try_convert_quad#converted-after-failure", "a quad whose language tag LanguageTag::new rejected still reaches "
                   "convert_quad", "%s:%s" % (t["file"], t["line"]))
            ok = False
    # who may reference convert_quad: only try_convert_quad
    others = []
    for g in facts.fns.values():
        if g.crate != "sophia_jsonld" or g is fn:
            continue
        for _, t in g.calls():
            if call_name_matches(t, r"parser::adapter::convert_quad$"):
                others.append(g.name)
            for a in t["args"]:
                if a[0] == "k" and a[1].get("kind") == "fn" and re.search(r"parser::adapter::convert_quad$", a[1].get("def", "")):
                    others.append(g.name)
    if others:
        ck.bad("R8.9", "R8.9@convert_quad#unchecked-caller", "convert_quad (which trusts the language tags wrapped by ArcVoc) is used outside "
               "try_convert_quad: %s" % sorted(set(others)))
        ok = False
    # the parser maps the delivered quads through it
    users = []
    for g in facts.fns.values():
        if g.crate != "sophia_jsonld":
            continue
        for _, t in g.calls():
            for a in t["args"]:
                if a[0] == "k" and a[1].get("kind") == "fn" and re.search(r"parser::adapter::try_convert_quad$", a[1].get("def", "")):
                    users.append(g.name)
            if call_name_matches(t, r"parser::adapter::try_convert_quad$"):
                users.append(g.name)
    if not any(re.search(r"parse_json", u) for u in users):
        ck.bad("R8.9", "R8.9@parse_json#unchecked-quads", "parse_json does not pass the quads of json-ld through try_convert_quad")
        ok = False
    if ok:
        ck.ok("R8.9", "try_convert_quad validates language tags and blank node labels (%d check(s)), refuses on failure, is the only user of convert_quad, and is what "
                      "parse_json maps json-ld's quads through" % len(checks))
    return ok


def json_ld_configured_iris_rule(ck, facts):
    """R8.10: the two IRIs the caller configures (document URL, base option) are re-parsed by ArcVoc::iri with iref and unwrapped; iref
    rejects some RFC 3987 IRIs, so parse_json must hand both to iref first and refuse with an error before the processor starts."""
    cands = [f for f in facts.fns.values() if f.crate == "sophia_jsonld" and re.search(r"parser::JsonLdParser::<LF>::parse_json::\{closure#\d+\}$", f.name)]
    cands = [f for f in cands if any(call_name_matches(t, r"JsonLdProcessor::to_rdf") for _, t in f.calls())]
    if len(cands) != 1:
        ck.bad("R8.10", "R8.10@parse_json#anchor", "anchor-missing: the body of parse_json that starts the json-ld processor")
        return False
    fn = cands[0]
    starts = [bi for bi, t in fn.calls() if call_name_matches(t, r"JsonLdProcessor::to_rdf")]
    checked = set()
    bad = False
    n = 0
    for bi, t in fn.calls():
        if not call_name_matches(t, r"^iref::Iri::<'a>::new$|^iref::Iri::new$|^iref::IriBuf::new$"):
            continue
        n += 1
        u = used_after_failure(fn, t, starts)
        if u is None:
            continue
        if u:
            ck.bad("R8.10", "R8.10@parse_json#started-after-failure", "an IRI iref rejected still reaches the json-ld processor (ArcVoc::iri will "
                   "unwrap the same failure)", "%s:%s" % (t["file"], t["line"]))
            bad = True
            continue
        if not all(sb in fn.reachable(bi) for sb in starts):
            continue
        # every path to the processor passes the check, or the loop that performs it
        names = leaf_calls(fn, t["args"][0], limit=80)
        doms = fn.dominators()
        loop_heads = [hb for hb, ht in fn.calls() if call_name_matches(ht, r"iter::Iterator::next$") and bi in fn.reachable(hb)]
        guards = [bi] + loop_heads
        if not all(any(g in doms.get(sb, ()) for g in guards) for sb in starts):
            continue
        if any(re.search(r"RemoteDocument::<I, M, T>::url$|RemoteDocument.*::url$", x) for x in names):
            checked.add("document URL")
        if any(re.search(r"JsonLdOptions::<LF>::inner$|JsonLdOptions.*::base$", x) for x in names):
            checked.add("base option")
    if len(checked) < 2 and not bad:
        # the same check spelled with an iterator search: `url.into_iter().chain(base).find_map(|iri| iref::Iri::new(..).err().map(..))`
        # whose outcome is decided before the processor starts, one way leading to a refusal
        IREF = r"^iref::Iri::<'a>::new$|^iref::Iri::new$|^iref::IriBuf::new$"
        for bi, t in fn.calls():
            if not call_name_matches(t, r"iter::Iterator::(find_map|find|any|all|position|try_for_each|try_fold)$") or len(t["args"]) < 2:
                continue
            o = fn.origin(t["args"][-1])
            cf = facts.fns.get(o[1]["def"]) if o[0] == "agg" and o[1].get("k") == "closure" else None
            if cf is None:
                continue
            inner = [u for u in facts.with_closures(cf) if any(call_name_matches(t_, IREF) for _, t_ in u.calls())]
            if not inner:
                continue
            # the parse result must reach what the closure returns (not be dropped)
            if not any(re.search(IREF, nm) for nm in leaf_calls(inner[0], ["m", [0]], limit=80)):
                continue
            doms = fn.dominators()
            if not all(bi in doms.get(sb, ()) for sb in starts):
                continue
            # decided: some successor region of the search's outcome cannot reach the processor
            decided = False
            for cand in sorted(fn.reachable(t["to"]) if t.get("to") is not None else ()):
                tt = fn.blocks[cand]["t"]
                if tt["t"] != "switch" or tt["on"][0] == "k":
                    continue
                oo = fn.origin(tt["on"])
                src = oo[1][1][0] if oo[0] == "rvalue" and oo[1][0] == "discr" and oo[1][1] else (tt["on"][1][0])
                if src not in set(forward_aliases_(fn, t["dest"][0])):
                    continue
                targets = [tb for _, tb in tt["vals"]] + [tt["else"]]
                if any(not any(sb in fn.reachable(tb) for sb in starts) for tb in targets) and \
                        any(any(sb in fn.reachable(tb) for sb in starts) for tb in targets):
                    decided = True
            if not decided:
                continue
            names = leaf_calls(fn, t["args"][0], limit=80)
            if any(re.search(r"RemoteDocument::<I, M, T>::url$|RemoteDocument.*::url$", x) for x in names):
                checked.add("document URL")
            if any(re.search(r"JsonLdOptions::<LF>::inner$|JsonLdOptions.*::base$", x) for x in names):
                checked.add("base option")
    missing = [x for x in ("document URL", "base option") if x not in checked]
    if missing and not bad:
        ck.bad("R8.10", "R8.10@parse_json#configured-iri-unchecked", "parse_json starts the json-ld processor without handing the %s to iref first: "
               "ArcVoc::iri re-parses it with iref::Iri::new(..).unwrap(), and iref 2.2.3 rejects IRIs sophia accepts (`http://[V1.a]/`: "
               "upper-case IPvFuture), so every document panics with such a base (%d iref::Iri::new call(s) seen)" % (" and the ".join(missing), n),
               fn.loc)
        return False
    if not bad:
        ck.ok("R8.10", "parse_json hands the document URL and the base option to iref and returns an error before the processor starts")
    return not bad


def run(ck, facts, tier):
    facts.require_crates(["sophia_rio", "sophia_turtle", "sophia_xml", "sophia_jsonld", "sophia_api", "sophia_iri"])
    held = language_obligations(ck, facts)
    held["R9.4"] = True
    unchecked_use_controls(ck)
    lazy = {"R8.9": json_ld_language_tags_rule, "R8.10": json_ld_configured_iris_rule}      # decided when a site relies on them

    def holds(ob):
        if ob in lazy and ob not in held:
            held[ob] = lazy[ob](ck, facts)
        return held.get(ob, False)
    # R8.5
    n = termimpls.accessor_kind_rule(ck, facts, "R8.5")
    ck.floor("R8.5", "impl Term in the workspace", n, 32)
    r85_ok = not any(f.rule == "R8.5" for f in ck.findings)
    # R8.6 who-may-construct ArcBnode
    ctors = set()
    for fn in facts.fns.values():
        for _ in blocks_with_agg(fn, "sophia_jsonld::vocabulary::ArcBnode"):
            ctors.add(fn.name)
    if ctors and all(re.search(r"BlankIdVocabulary>::get_blank_id$|clone::Clone>::clone$", c) for c in ctors):
        ck.ok("R8.6", "ArcBnode constructed only in %s" % sorted(ctors))
    else:
        ck.bad("R8.6", "R8.6@ArcBnode#constructors", "ArcBnode (assumed to hold a valid `_:` label) is constructed in %s" % sorted(ctors))
    # R8.2
    entries = [f.id for f in facts.fns.values() if re.search(SCOPE_FILES, f.file)]
    ck.floor("R8.2", "adapter functions (entry points)", len(entries), 150)
    reach = panics.reachable_fns(facts, entries)
    sites = []
    for fid in sorted(reach):
        sites += panics.sites_of(facts.fns[fid], map_unchecked=True)
    panics.controls(ck, "R8.2")
    panics.classify(facts, sites, TABLE, validators=[VALIDATOR_ASSERT])
    nmap = 0
    for st in sites:
        if st.kind == "map-unchecked":
            nmap += 1
            keeps, how = mapped_preserves(facts, st.fn, st.mapped)
            if keeps:
                st.status, st.reason = "auto", "map_unchecked with a conversion of the wrapped string (%s)" % how
            else:
                st.kind, st.detail = "validator-call", "map_unchecked"
    ck.floor("R8.2", "map_unchecked calls reachable from the adapters", nmap, 2)
    ck.extra["panic_audit"] = dict(entry_functions=len(entries), reachable_functions=len(reach), sites=len(sites))
    seen_vc = {}
    for s in sites:
        if s.kind == "validator-call":
            ent = VALIDATOR_CALLS.get(s.key)
            seen_vc[s.key] = seen_vc.get(s.key, 0) + 1
            if ent is None or seen_vc[s.key] > 1:
                ck.bad("R8.2", "R8.2@" + s.key, "unaudited `new_unchecked` on data from a back-end: which validator language covers it?", s.loc)
            elif not holds(ent[0]):
                ck.bad("R8.2", "R8.2@" + s.key + "#undischarged", "the unchecked construction relies on obligation %s, which does not hold" % ent[0], s.loc)
            elif s.key in REFUTED_BACKEND_GUARANTEES:
                # L8.1 (the validator accepts what the back-end certainly delivers) holds, but the converse assumption A8
                # (the back-end delivers nothing else) has been refuted by a reproduction for this token class
                ck.bad("R8.2", "R8.2@" + s.key + "#backend-guarantee", REFUTED_BACKEND_GUARANTEES[s.key], s.loc)
            else:
                ck.ok("R8.2", s.key, "discharged by %s (%s)" % ent)
            continue
        if s.status == "validator":
            ent = ASSERTED.get(s.fn.name)
            asserted = re.search(r"is_ok\((.*)\)$", s.detail)
            if ent is None or not asserted or asserted.group(1) != ent[0]:
                ck.bad("R8.2", "R8.2@" + s.key, "assertion on back-end data uses %s; the audited validator for %s is %s (a stricter one "
                       "panics in debug builds on tokens the back-end legitimately delivers)" % (
                           asserted.group(1) if asserted else "?", s.fn.name, ent[0] if ent else "not audited"), s.loc)
            elif not held.get(ent[1], False):
                ck.bad("R8.2", "R8.2@" + s.key + "#undischarged", "assertion relies on obligation %s, which does not hold" % ent[1], s.loc)
            else:
                ck.ok("R8.2", s.key, "debug assertion discharged by %s" % ent[1])
        elif s.status == "auto":
            ck.ok("R8.2", s.key, "auto: " + s.reason)
        elif s.kind == "unwrap" and reparse_of_validated_iri(s):
            # same audited fact as the `...#unwrap:fnref:unwrap:arg-of:Option::map` table entries, spelled as a direct call
            if held.get("L8.1:base-reparse(sophia<=RFC)", False):
                ck.ok("R8.2", s.key, "oxiri re-parse of a sophia-validated Iri (Iri::unwrap() of the wrapper): sophia-valid => "
                                     "RFC 3987 (L8.1:base-reparse) => oxiri accepts (A9)")
            else:
                ck.bad("R8.2", "R8.2@" + s.key + "#undischarged", "re-parse of a sophia-validated IRI relies on L8.1:base-reparse, which does not hold", s.loc)
        elif s.status == "r8.5":
            if r85_ok:
                ck.ok("R8.2", s.key, s.reason, nontrivial=False)
            else:
                ck.bad("R8.2", "R8.2@" + s.key, "default accessor reachable: R8.5 fails", s.loc)
        elif s.status == "audited" and s.key in RULE_BACKED:
            if holds(RULE_BACKED[s.key]):
                ck.ok("R8.2", s.key, "audited, and the reason is decided by %s: %s" % (RULE_BACKED[s.key], s.reason))
            else:
                ck.bad("R8.2", "R8.2@" + s.key + "#undischarged", "the audited reason of this site relies on %s, which does not hold" % RULE_BACKED[s.key], s.loc)
        elif s.status == "audited":
            ck.ok("R8.2", s.key, "audited: " + s.reason)
        elif re.search(r"::new_unchecked#unwrap:unwrap:call:.*::new$|LanguageTag::<T>::new_unchecked#panic-call:assert:regex::Regex::is_match$", s.key):
            ck.ok("R8.2", s.key, "the check inside the unchecked constructor itself: discharged per call site (validator-call entries)")
        elif s.kind == "assert" and s.what.startswith("overflow"):
            ck.bad("R8.2", "R8.2@" + s.key, "arithmetic overflow check reachable from a parser adapter", s.loc)
        else:
            ck.bad("R8.2", "R8.2@" + s.key, "panic site reachable from a parser adapter is neither guarded in the code nor audited: "
                   "%s %s (%s)" % (s.kind, s.what, s.detail), s.loc)
    ck.floor("R8.2", "panic sites classified", len(sites), 25)
    ck.assumptions = [
        "A8: rio_turtle/rio_xml validate IRIs with oxiri and language tags with oxilangtag; json-ld uses iref/langtag and relabels "
        "blank nodes with its generator; they emit only tokens of their normative grammars (versions pinned in Cargo.lock)",
        "rio_turtle's label scanner stops at a '.' not followed by a name character",
        "termination / stack use / panics inside the third-party parsers are not decided"]
    ck.trusted = ["rustc MIR", "regex-syntax/regex-automata", "grammar transcriptions", "audited table in rules/c08.py"]
