"""Workspace call graph at def level + SCCs."""
import re
from core import callee_id


def build(facts, link_unresolved=True, skip_std_unresolved=True):
    """edges: fn id -> set of (callee id, call terminator, block index)"""
    # trait item -> implementing fns in the workspace
    impls_of_item = {}
    for fn in facts.fns.values():
        if fn.trait_item:
            impls_of_item.setdefault(fn.trait_item, []).append(fn.id)
    edges = {f: [] for f in facts.fns}
    for fn in facts.fns.values():
        for bi, t in fn.calls():
            f = t["f"]
            if "def" not in f:
                continue
            res = f.get("res")
            if res and res in facts.fns:
                edges[fn.id].append((res, t, bi))
                continue
            if res:
                continue      # resolved to something outside the workspace
            # unresolved trait method (receiver is a type parameter / dyn)
            d = f["def"]
            if d in facts.fns:          # default method body in the workspace
                edges[fn.id].append((d, t, bi))
            if link_unresolved and d in impls_of_item:
                if skip_std_unresolved and not d.split("::")[0].startswith("sophia"):
                    continue
                for i in impls_of_item[d]:
                    edges[fn.id].append((i, t, bi))
        # closures constructed here are assumed callable from here
        for b in fn.blocks:
            for s in b["s"]:
                if s[0] == "=" and s[2][0] == "agg" and s[2][1]["k"] == "closure" and s[2][1]["def"] in facts.fns:
                    edges[fn.id].append((s[2][1]["def"], None, None))
    return edges


def sccs(nodes, succ):
    """Tarjan, iterative. succ(n) -> iterable of nodes. Returns list of SCCs (lists)."""
    index = {}
    low = {}
    on = set()
    stack = []
    out = []
    counter = [0]
    for root in nodes:
        if root in index:
            continue
        work = [(root, iter(succ(root)))]
        index[root] = low[root] = counter[0]
        counter[0] += 1
        stack.append(root)
        on.add(root)
        while work:
            n, it = work[-1]
            advanced = False
            for m in it:
                if m not in index:
                    index[m] = low[m] = counter[0]
                    counter[0] += 1
                    stack.append(m)
                    on.add(m)
                    work.append((m, iter(succ(m))))
                    advanced = True
                    break
                elif m in on:
                    low[n] = min(low[n], index[m])
            if advanced:
                continue
            work.pop()
            if work:
                p = work[-1][0]
                low[p] = min(low[p], low[n])
            if low[n] == index[n]:
                comp = []
                while True:
                    x = stack.pop()
                    on.discard(x)
                    comp.append(x)
                    if x == n:
                        break
                out.append(comp)
    return out


def recursive_components(facts, edges):
    succ = lambda n: [e[0] for e in edges.get(n, [])]
    comps = []
    for c in sccs(sorted(edges), succ):
        if len(c) > 1 or c[0] in succ(c[0]):
            comps.append(sorted(c))
    return comps
