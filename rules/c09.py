"""C09 — IRI validation is exactly RFC 3987 (language clause, proof level) + one-validator rule."""
import re
import grammars as G
from core import Relang, CheckError
from mirutil import (match_calls, patterns_by_owner, union_pattern, bool_switch, edge_dominates,
                     blocks_with_agg, is_call_to, call_name_matches, try_success_edge)

LEVEL = "proof"
EXPLANATION = (
    "Decides the language clause of C09 exhaustively: the regex literals that the three IRI predicates "
    "(is_absolute_iri_ref / is_relative_iri_ref / is_valid_iri_ref) are really built from (read from the "
    "type-checked MIR of /repo, constants evaluated by rustc) are compiled with regex-syntax/regex-automata "
    "to DFAs and compared, over ALL strings, with a transcription of the RFC 3987 grammar (product-automaton "
    "walk; equality, disjointness, and equality restricted to one context language per production). "
    "Structural rules check that Iri::new / IriRef::new / Namespace::new/get go through exactly these "
    "predicates and that the predicates return the matcher's verdict unchanged. "
    "(R9.7) panic audit of the resolution glue (resolve.rs, _wrapper.rs): every unwrap/assert is discharged by L9 + A9 or audited, except the one recorded as a known finding. NOT decided: that resolution implements RFC 3986 §5.2 (oxiri's algorithm, trusted base).")

PREDICATES = {
    # function last segment -> (reference language name, human name)
    "is_absolute_iri_ref": "RFC_IRI",
    "is_relative_iri_ref": "RFC_IRELATIVE_REF",
    "is_valid_iri_ref": "RFC_IRI_REFERENCE",
}


def predicate_language(ck, facts, fn, owners):
    """The language a predicate function decides = the union of the patterns of the regex static it calls
    `is_match` on, provided it returns that verdict unchanged."""
    mcs = list(match_calls(facts, fn))
    if len(mcs) != 1:
        ck.bad("R9.4", "R9.4@%s#is_match-count" % fn.name,
               "%s must decide by exactly one regex match; found %d is_match call(s)" % (fn.name, len(mcs)), fn.loc)
        return None
    bi, t, owner = mcs[0]
    if owner is None or owner not in owners:
        ck.bad("R9.4", "R9.4@%s#owner" % fn.name,
               "cannot tell which regex static %s matches against (owner=%r)" % (fn.name, owner), fn.loc)
        return None
    # verdict returned unchanged: the call's destination is _0 (or moved to _0 without negation)
    ok = t["dest"] == [0]
    if not ok:
        for rb in fn.ret_blocks():
            pass
        # accept `_0 = move dest`
        for b in fn.blocks:
            for s in b["s"]:
                if s[0] == "=" and s[1] == [0] and s[2][0] == "use" and s[2][1][0] in ("m", "c") \
                        and s[2][1][1] == t["dest"]:
                    ok = True
    # the matched text must be the function's own parameter
    arg = fn.origin(t["args"][1])
    if not (arg[0] == "param" and arg[1] == 1):
        ok = False
    if not ok:
        ck.bad("R9.4", "R9.4@%s#verdict" % fn.name,
               "%s does not return `REGEX.is_match(txt)` of its own argument unchanged" % fn.name, fn.loc)
        return None
    sites = owners[owner]
    pats = []
    for s in sites:
        pats.extend(p["value"] for p in s["patterns"])
    ck.ok("R9.4", "%s -> %s" % (fn.name, owner), "matches against %d pattern(s) from %s" % (
        len(pats), ", ".join(sorted({p["source"] for s in sites for p in s["patterns"]}))))
    return union_pattern(pats)


def constructor_rule(ck, facts, fn, predicate_suffix, what):
    """`new`-style constructor: Ok(..) is built only on the true edge of `predicate(own argument)`"""
    calls = [(bi, t) for bi, t in fn.calls() if t["f"].get("name", "").endswith(predicate_suffix)]
    if len(calls) != 1:
        ck.bad("R9.4", "R9.4@%s#validator" % what,
               "%s must call %s exactly once (found %d)" % (what, predicate_suffix, len(calls)), fn.loc)
        return
    bi, t = calls[0]
    nxt = t["to"]
    # find the switch testing this call's result
    sw = None
    for cand in sorted(fn.reachable(nxt)):
        bs = bool_switch(fn, cand)
        if bs and bs[0][0] == "call" and bs[0][1] is t:
            sw = (cand, bs[1], bs[2])
            break
    if sw is None:
        ck.bad("R9.4", "R9.4@%s#branch" % what, "%s does not branch on the validator's verdict" % what, fn.loc)
        return
    sb, true_t, false_t = sw
    oks = list(blocks_with_agg(fn, "core::result::Result", "Ok"))
    if not oks:
        ck.bad("R9.4", "R9.4@%s#ok" % what, "%s never builds Ok(..)" % what, fn.loc)
        return
    for obi, si, dest, ops in oks:
        if not edge_dominates(fn, (sb, true_t), obi):
            ck.bad("R9.4", "R9.4@%s#unguarded-ok" % what,
                   "%s builds Ok(..) on a path that does not pass the validator's `true` edge" % what, fn.loc)
            return
    ck.ok("R9.4", "%s guarded by %s" % (what, predicate_suffix))


def rust_unescape(lit):
    out, i = [], 0
    while i < len(lit):
        c = lit[i]
        if c != "\\":
            out.append(c); i += 1; continue
        n = lit[i + 1]
        if n == "u":
            j = lit.index("}", i)
            out.append(chr(int(lit[i + 3:j], 16))); i = j + 1
        elif n == "x":
            out.append(chr(int(lit[i + 2:i + 4], 16))); i += 4
        else:
            out.append({"n": "\n", "r": "\r", "t": "\t", "0": "\0"}.get(n, n)); i += 2
    return "".join(out)


def reference_selftest(rl, facts):
    """Membership of every example of iri/src/test.rs (POSITIVE_IRIS with their absolute flag, NEGATIVE_IRIS,
    RELATIVE_IRIS) in the *reference* languages.  The tables are read as data (text of string literals): this judges
    the transcription in grammars.py, so a disagreement is recorded in the evidence and never reported against /repo."""
    import os
    from core import REPO
    path = os.path.join(REPO, "iri", "src", "test.rs")
    if not os.path.exists(path):
        return {}
    src = open(path, encoding="utf-8").read()
    STR = r'"((?:[^"\\]|\\.)*)"'
    def section(name):
        m = re.search(r"pub const %s\b[^=]*=\s*&\[(.*?)\n\];" % name, src, re.S)
        return m.group(1) if m else ""
    cases = []
    for m in re.finditer(r"\(\s*" + STR + r",\s*\(\s*(true|false)", section("POSITIVE_IRIS")):
        txt = rust_unescape(m.group(1))
        cases.append((txt, True, "RFC_IRI_REFERENCE"))
        cases.append((txt, m.group(2) == "true", "RFC_IRI"))
        cases.append((txt, m.group(2) == "false", "RFC_IRELATIVE_REF"))
    for m in re.finditer(STR, re.sub(r"(?m)^\s*//[^\n]*", "", section("NEGATIVE_IRIS"))):
        cases.append((rust_unescape(m.group(1)), False, "RFC_IRI_REFERENCE"))
    for m in re.finditer(r"\(\s*" + STR + r",\s*" + STR + r"\s*\)", re.sub(r"(?m)^\s*//[^\n]*", "", section("RELATIVE_IRIS"))):
        cases.append((rust_unescape(m.group(1)), True, "RFC_IRI_REFERENCE"))
        cases.append((rust_unescape(m.group(2)), True, "RFC_IRI"))
    out = {}
    for i, (txt, expect, ref) in enumerate(cases):
        name = "SELFTEST_%d" % i
        rl.lang(name, "^(?:" + "".join("\\x{%X}" % ord(c) for c in txt) + ")$")
        oid = "selftest:%d" % i
        rl.empty(oid, "& %s %s" % (name, ref), 1)
        out[oid] = (txt, expect, ref)
    return out


def run(ck, facts, tier):
    facts.require_crates(["sophia_iri", "sophia_api"])
    owners = patterns_by_owner(facts, ["sophia_iri"])
    ck.trusted = ["rustc (constant evaluation, MIR)", "regex-syntax 0.8.11 parser + regex-automata 0.4.18 "
                  "determinisation (same parser as /repo's regex dependency)",
                  "the RFC 3987/3986 transcription in /verif/rules/grammars.py (self-tested against "
                  "iri/src/test.rs tables)", "oxiri 0.2 accepts every RFC 3987 IRI reference (A9)"]
    ck.assumptions = ["A9: oxiri (pinned in Cargo.lock) accepts every RFC 3987 IRI / IRI reference, so a value "
                      "accepted by the validator can be re-parsed by as_base()/to_base()/resolve without panic",
                      "resolution algorithm (RFC 3986 §5.2) is oxiri's: not decided"]
    rl = Relang()
    rl.lang("RFC_IRI", G.anch(G.IRI))
    rl.lang("RFC_IRELATIVE_REF", G.anch(G.IRELATIVE_REF))
    rl.lang("RFC_IRI_REFERENCE", G.anch(G.IRI_REFERENCE))
    langs = {}
    for last, ref in PREDICATES.items():
        fns = [f for f in facts.fns.values() if f.crate == "sophia_iri" and f.kind == "Fn"
               and f.name.split("::")[-1] == last]
        if len(fns) != 1:
            ck.bad("R9.4", "R9.4@%s#anchor" % last, "anchor-missing: predicate function %s not found in sophia_iri "
                   "(found %d)" % (last, len(fns)))
            continue
        pat = predicate_language(ck, facts, fns[0], owners)
        if pat is None:
            continue
        name = "REPO_" + last
        rl.lang(name, pat)
        langs[last] = name
        k = 3 if tier == "quick" else 8
        rl.equal("L9:%s=%s" % (last, ref), name, ref, k)
    if "is_absolute_iri_ref" in langs and "is_relative_iri_ref" in langs:
        rl.disjoint("L9.3:abs/rel-disjoint", langs["is_absolute_iri_ref"], langs["is_relative_iri_ref"])
    # context-restricted equalities: every production reports its own shortest witnesses
    ctxs = []
    if "is_absolute_iri_ref" in langs:
        for cname, cpat in G.IRI_CONTEXTS.items():
            cn = "CTXA_" + cname
            rl.lang(cn, G.anch(cpat))
            oid = "L9.1[%s]" % cname
            rl.empty(oid + ".sub", "& %s & %s ! RFC_IRI" % (cn, langs["is_absolute_iri_ref"]), 2)
            rl.empty(oid + ".sup", "& %s & RFC_IRI ! %s" % (cn, langs["is_absolute_iri_ref"]), 2)
            ctxs.append(oid)
    if "is_relative_iri_ref" in langs:
        for cname, cpat in G.IRELATIVE_CONTEXTS.items():
            cn = "CTXR_" + cname
            rl.lang(cn, G.anch(cpat))
            oid = "L9.2[%s]" % cname
            rl.empty(oid + ".sub", "& %s & %s ! RFC_IRELATIVE_REF" % (cn, langs["is_relative_iri_ref"]), 2)
            rl.empty(oid + ".sup", "& %s & RFC_IRELATIVE_REF ! %s" % (cn, langs["is_relative_iri_ref"]), 2)
            ctxs.append(oid)
    # reference self-test: the transcription is confronted with the repository's own example tables (read as data)
    selftest = reference_selftest(rl, facts)
    linfo, res = rl.run()
    st = dict(cases=len(selftest), disagreements=[])
    for oid, (txt, expect_member, ref) in selftest.items():
        r = res.pop(oid)
        is_member = not r["empty"]
        if is_member != expect_member:
            st["disagreements"].append("%r is %sin %s but iri/src/test.rs lists it as %s" % (
                txt, "" if is_member else "not ", ref, "valid" if expect_member else "invalid"))
    ck.extra["reference_selftest"] = st      # evidence only: it judges the checker's transcription, not /repo
    for name, info in linfo.items():
        if not info.get("ok"):
            raise CheckError("language %s does not compile: %s" % (name, info.get("error")))
    ck.extra["dfa_states"] = {n: i.get("dfa_states") for n, i in linfo.items()}
    total_states = 0
    for oid, r in sorted(res.items()):
        total_states += r["product_states"]
        held = r["empty"]
        direction = ("accepted by /repo but not by RFC 3987" if oid.endswith(".sub")
                     else "in RFC 3987 but rejected by /repo" if oid.endswith(".sup") else "in both languages")
        ck.obligation(oid, held, "" if held else "%s: %s" % (direction, r["witnesses"]),
                      witnesses=r["witnesses"], product_states=r["product_states"])
        if not held:
            # one finding per top-level obligation; context-restricted ones refine the report, keyed by context
            ck.findings.append(__import__("core").Finding(
                "L9", "L9@%s" % oid,
                "language obligation %s fails; shortest strings %s: %s" % (
                    oid, direction, ", ".join(repr(w) for w in r["witnesses"])),
                "iri/src/_regex.rs", dict(witnesses=r["witnesses"])))
    ck.extra["product_states_total"] = total_states

    # who-calls: one validator
    wanted = [
        ("sophia_iri", r"_wrapper::Iri::<T>::new$", "is_absolute_iri_ref", "Iri::new"),
        ("sophia_iri", r"_wrapper::IriRef::<T>::new$", "is_valid_iri_ref", "IriRef::new"),
    ]
    for crate, name_re, pred, what in wanted:
        fns = facts.find_fns(crate=crate, name_re=name_re)
        if len(fns) != 1:
            ck.bad("R9.4", "R9.4@%s#anchor" % what, "anchor-missing: %s not found (%d)" % (what, len(fns)))
            continue
        constructor_rule(ck, facts, fns[0], pred, what)
    # is_valid_suffixed_iri_ref: both arms end in is_valid_iri_ref of (ns [+ suffix])
    fns = [f for f in facts.fns.values() if f.crate == "sophia_iri" and f.name.endswith("::is_valid_suffixed_iri_ref")]
    if len(fns) != 1:
        ck.bad("R9.4", "R9.4@is_valid_suffixed_iri_ref#anchor", "anchor-missing: is_valid_suffixed_iri_ref")
    else:
        fn = fns[0]
        calls = [(bi, t) for bi, t in fn.calls() if t["f"].get("name", "").endswith("::is_valid_iri_ref")]
        rets_ok = all(t["dest"] == [0] for _, t in calls)
        if len(calls) < 2 or not rets_ok:
            ck.bad("R9.4", "R9.4@is_valid_suffixed_iri_ref#shape",
                   "is_valid_suffixed_iri_ref must return is_valid_iri_ref(..) on both arms (found %d calls)" % len(calls),
                   fn.loc)
        else:
            # every return is preceded by one of those calls
            covered = True
            for rb in fn.ret_blocks():
                if not any(fn.dominates(bi, rb) or rb in fn.reachable(t["to"]) for bi, t in calls):
                    covered = False
            # what is validated: `ns` alone only when there is no suffix; otherwise the concatenation ns + suffix
            from mirutil import root_local, provenance
            sw = None
            for cand, bk in enumerate(fn.blocks):
                tt = bk["t"]
                if tt["t"] == "switch" and (tt.get("variants") or {}).get("enum") == "core::option::Option":
                    o = fn.origin(tt["on"])
                    if o[0] == "rvalue" and o[1][0] == "discr" and o[1][1] == [2]:
                        vals = dict((v, b2) for v, b2 in tt["vals"])
                        sw = (cand, vals.get("0", tt["else"]))
            what_ok = sw is not None
            for bi, t in calls:
                l, path2 = root_local(fn, t["args"][0])
                if l == 1:
                    if sw is None or not edge_dominates(fn, sw, bi):
                        what_ok = False
                        ck.bad("R9.4", "R9.4@is_valid_suffixed_iri_ref#validates-ns-only", "is_valid_suffixed_iri_ref validates the namespace alone on a "
                               "path where a suffix is present: ns + suffix can be invalid although ns is valid (e.g. after a port, an IP "
                               "literal or an unfinished percent-escape), and valid although ns is not", "%s:%s" % (t["file"], t["line"]))
                else:
                    pushed = set()
                    for b2, t2 in fn.calls():
                        if call_name_matches(t2, r"string::String::push_str$") and root_local(fn, t2["args"][0])[0] == l and fn.dominates(b2, bi):
                            src = provenance(fn, t2["args"][1], transparent=())[-1]
                            if src[0] == "param":
                                pushed.add(src[1])
                            elif src[0] == "place" and src[1] and src[1][0] == 2:
                                pushed.add(2)
                            else:
                                l2, _ = root_local(fn, t2["args"][1])
                                sd = fn.single_def(l2) if l2 is not None else None
                                if sd and sd[2][0] == "use" and sd[2][1][0] != "k" and sd[2][1][1][0] == 2:
                                    pushed.add(2)
                    if pushed != {1, 2}:
                        what_ok = False
                        ck.bad("R9.4", "R9.4@is_valid_suffixed_iri_ref#not-the-concatenation", "the string validated when a suffix is present is not "
                               "the concatenation of ns and suffix (pushed parameters: %s)" % sorted(pushed), "%s:%s" % (t["file"], t["line"]))
            if covered and what_ok:
                ck.ok("R9.4", "is_valid_suffixed_iri_ref -> is_valid_iri_ref(ns) without suffix, is_valid_iri_ref(ns + suffix) with one")
            elif covered:
                pass
            else:
                ck.bad("R9.4", "R9.4@is_valid_suffixed_iri_ref#uncovered-return",
                       "a return of is_valid_suffixed_iri_ref is not preceded by is_valid_iri_ref", fn.loc)
    # Namespace::new / Namespace::get go through IriRef::new (hence the same validator)
    fns = facts.find_fns(crate="sophia_api", name_re=r"ns::_namespace::Namespace::<T>::new$")
    if len(fns) != 1:
        ck.bad("R9.4", "R9.4@Namespace::new#anchor", "anchor-missing: Namespace::new not found (%d)" % len(fns))
    else:
        fn = fns[0]
        cs = [t for f2 in facts.with_closures(fn) for _, t in f2.calls() if call_name_matches(t, r"IriRef::<T>::new$")]
        # the only way to build the wrapper is from IriRef::new's Ok
        aggs = [a for f2 in facts.with_closures(fn) for a in blocks_with_agg(f2, "sophia_api::ns::_namespace::Namespace")]
        if len(cs) == 1 and fn.origin(cs[0]["args"][0])[0] == "param":
            ck.ok("R9.4", "Namespace::new -> IriRef::new(own argument)")
        else:
            ck.bad("R9.4", "R9.4@Namespace::new#validator", "Namespace::new must validate its argument with IriRef::new",
                   fn.loc)
    fns = facts.find_fns(crate="sophia_api", name_re=r"ns::_namespace::Namespace::<T>::get$")
    if len(fns) != 1:
        ck.bad("R9.4", "R9.4@Namespace::get#anchor", "anchor-missing: Namespace::get not found (%d)" % len(fns))
    else:
        fn = fns[0]
        cs = [(bi, t) for bi, t in fn.calls() if call_name_matches(t, r"IriRef::<T>::new$")]
        good = False
        msg = "Namespace::get must validate ns+suffix with IriRef::new(..)? before returning Ok"
        if len(cs) == 1:
            bi, t = cs[0]
            edge = try_success_edge(fn, t)
            arg = fn.origin(t["args"][0])
            oks = list(blocks_with_agg(fn, "core::result::Result", "Ok"))
            if edge and oks and arg[0] == "call" and call_name_matches(arg[1], r"string::ToString::to_string$"):
                sb, cont, brk = edge
                src = fn.origin(arg[1]["args"][0])     # what is rendered: must be the NsTerm that is returned
                same = True
                for obi, si, dest, ops in oks:
                    if not edge_dominates(fn, (sb, cont), obi):
                        same = False
                        msg = "Namespace::get builds Ok(..) on a path where IriRef::new(..) did not succeed"
                    po = fn.origin(ops[0])
                    if not (po[0] == "agg" and src[0] == "agg" and po[1].get("def", "").endswith("NsTerm")
                            and po[3] == src[3]):
                        same = False
                        msg = "Namespace::get validates a different value from the NsTerm it returns"
                good = same
        if good:
            ck.ok("R9.4", "Namespace::get -> IriRef::new(ns_term.to_string())? dominates Ok(ns_term)")
        else:
            ck.bad("R9.4", "R9.4@Namespace::get#validator", msg, fn.loc)
    # R9.5 unwrap sites keyed to A9: as_base/to_base call BaseIri(Ref)::new on the wrapped string itself
    for name_re, ctor, what in [
        (r"_wrapper::Iri::<T>::as_base$", "BaseIri::<T>::new", "Iri::as_base"),
        (r"_wrapper::Iri::<T>::to_base$", "BaseIri::<T>::new", "Iri::to_base"),
        (r"_wrapper::IriRef::<T>::as_base$", "BaseIriRef::<T>::new", "IriRef::as_base"),
        (r"_wrapper::IriRef::<T>::to_base$", "BaseIriRef::<T>::new", "IriRef::to_base"),
    ]:
        fns = facts.find_fns(crate="sophia_iri", name_re=name_re)
        if len(fns) != 1:
            ck.bad("R9.5", "R9.5@%s#anchor" % what, "anchor-missing: %s (%d)" % (what, len(fns)))
            continue
        fn = fns[0]
        cs = [t for _, t in fn.calls() if t["f"].get("name", "").endswith(ctor)]
        if len(cs) != 1:
            ck.bad("R9.5", "R9.5@%s#ctor" % what, "%s must build its base with %s" % (what, ctor), fn.loc)
            continue
        o = fn.origin(cs[0]["args"][0])
        # the argument must derive from self.0 (the validated string): param 1 field 0, possibly via borrow()
        src = o
        if o[0] == "call" and call_name_matches(o[1], r"borrow::Borrow::borrow$"):
            src = fn.origin(o[1]["args"][0])
        if src[0] == "param" and src[1] == 1 and (not src[2] or src[2][0].startswith("f0")):
            ck.ok("R9.5", "%s re-parses its own validated string (discharged by L9 + A9)" % what)
        else:
            ck.bad("R9.5", "R9.5@%s#arg" % what, "%s re-parses something other than its validated string" % what, fn.loc)
    # R9.6 the one-shot resolve() wrappers only forward to the base's resolve (no special cases of their own)
    for name_re, what, base_fn in [
        (r"_wrapper::Iri::<T>::resolve$", "Iri::resolve", r"BaseIri::<T>::resolve$"),
        (r"_wrapper::IriRef::<T>::resolve$", "IriRef::resolve", r"BaseIriRef::<T>::resolve$"),
    ]:
        fns = facts.find_fns(crate="sophia_iri", name_re=name_re)
        if len(fns) != 1:
            ck.bad("R9.6", "R9.6@%s#anchor" % what, "anchor-missing: %s (%d)" % (what, len(fns)))
            continue
        fn = fns[0]
        branches = [bi for bi, b in enumerate(fn.blocks) if not b.get("cleanup") and b["t"]["t"] == "switch"
                    and not (b["t"]["on"][0] != "k" and fn.locals[b["t"]["on"][1][0]]["ty"] == "bool"
                             and fn.single_def(b["t"]["on"][1][0]) is None)]
        real = []
        for bi in branches:
            t = fn.blocks[bi]["t"]
            o = fn.origin(t["on"])
            if o[0] == "const":
                continue       # drop flags
            real.append(bi)
        calls = [t for _, t in fn.calls()]
        fwd = [t for t in calls if call_name_matches(t, base_fn)]
        asb = [t for t in calls if call_name_matches(t, r"::as_base$")]
        ok = len(fwd) == 1 and len(asb) == 1 and not real and fwd[0]["dest"] == [0]
        if ok:
            a = fn.origin(fwd[0]["args"][1])
            ok = a[0] == "param" and a[1] == 2
        if ok:
            ck.ok("R9.6", "%s = self.as_base().resolve(rel), nothing else" % what)
        else:
            ck.bad("R9.6", "R9.6@%s#not-a-forwarder" % what, "%s is expected to be exactly `self.as_base().resolve(rel)`; found %d branch(es), "
                   "%d resolve call(s)" % (what, len(real), len(fwd)), fn.loc)
    # R9.8 resolve_into returns the *whole* buffer as the result, and the resolver appends to it (it only clears it on some
    # paths): the buffer must be cleared first
    def cleared_before(fn, callee_re, param):
        """(found the callee, String::clear on `param` dominates it)"""
        tgt = [(bi, t) for bi, t in fn.calls() if call_name_matches(t, callee_re)]
        clr = [bi for bi, t in fn.calls() if call_name_matches(t, r"^std::string::String::clear$")
               and fn.origin(t["args"][0])[0] == "param" and fn.origin(t["args"][0])[1] == param]
        return bool(tgt), bool(tgt) and all(any(fn.dominates(c, bi) and c != bi for c in clr) for bi, _ in tgt)
    import core
    ck.control("R9.8", "pos_result_is_whole_buffer", cleared_before(core.fixture_fn("pos_result_is_whole_buffer"), r"^append_into$", 2) == (True, False))
    ck.control("R9.8", "neg_buffer_cleared_first", cleared_before(core.fixture_fn("neg_buffer_cleared_first"), r"^append_into$", 2) != (True, True), expect=False)
    n98 = 0
    for fn in facts.find_fns(crate="sophia_iri", name_re=r"^resolve::BaseIri(Ref)?::<T>::resolve_into$"):
        n98 += 1
        found, ok = cleared_before(fn, r"^oxiri::Iri(Ref)?::<T>::resolve_into$", 3)
        if not found:
            ck.bad("R9.8", "R9.8@%s#anchor" % fn.name, "anchor-missing: the call of the resolver's resolve_into", fn.loc)
        elif ok:
            ck.ok("R9.8", "%s clears the buffer before resolving into it" % fn.name)
        else:
            ck.bad("R9.8", "R9.8@%s#stale-buffer" % fn.name, "%s returns the whole buffer as the resolved IRI but does not clear it first: "
                   "the resolver appends (it only clears the buffer when the reference has a scheme), so a reused buffer yields "
                   "`http://a/dhttp://a/e`, and stale content is prefixed to the result" % fn.name, fn.loc)
    ck.floor("R9.8", "resolve_into wrappers", n98, 2)
    # R9.7 panic audit of the resolution glue (resolve.rs, _wrapper.rs): "every accepted value can be used as a base or be
    # resolved without panicking"
    import panics
    IRI_TABLE = {
        "_wrapper::Iri::<T>::as_base#unwrap:unwrap:call:resolve::BaseIri::<T>::new": (1, "R9.5: re-parse of the validated string (L9 + A9)"),
        "_wrapper::Iri::<T>::to_base#unwrap:unwrap:call:resolve::BaseIri::<T>::new": (1, "R9.5"),
        "_wrapper::IriRef::<T>::as_base#unwrap:unwrap:call:resolve::BaseIriRef::<T>::new": (1, "R9.5"),
        "_wrapper::IriRef::<T>::to_base#unwrap:unwrap:call:resolve::BaseIriRef::<T>::new": (1, "R9.5"),
        "_wrapper::Iri::<T>::new_unchecked#unwrap:unwrap:call:_wrapper::Iri::<T>::new":
            (1, "the debug-only re-validation inside new_unchecked: a documented contract of the *caller* (its call sites are audited where they occur)"),
        "_wrapper::IriRef::<T>::new_unchecked#unwrap:unwrap:call:_wrapper::IriRef::<T>::new": (1, "as Iri::new_unchecked"),
        "resolve::BaseIriRef::<T>::to_base_iri#panic-call:assert:oxiri::IriRef::<T>::is_absolute":
            (1, "documented precondition of to_base_iri (`# Panics` if the base is not absolute)"),
        "resolve::BaseIriRef::<T>::to_base_iri#unwrap:unwrap:call:std::convert::TryFrom::try_from":
            (1, "after the assertion that the reference is absolute, the conversion to an absolute IRI cannot fail"),
    }
    glue = [f for f in facts.fns.values() if f.crate == "sophia_iri" and re.search(r"iri/src/(resolve|_wrapper)\.rs$", f.file)]
    sites = []
    for f in sorted(glue, key=lambda x: x.id):
        sites += panics.sites_of(f)
    panics.controls(ck, "R9.7")
    panics.classify(facts, sites, IRI_TABLE)
    for st in sites:
        if st.kind == "validator-call" and re.search(r"Resolvable<T>>::output_rel(::\{closure\})?#validator-call:IriRef:", st.key):
            # A9 (the resolver's output is an RFC 3987 IRI reference) is REFUTED for relative bases
            ck.bad("R9.7", "R9.7@" + st.key + "#resolver-guarantee", "the result of resolving against a *relative* base is wrapped with "
                   "IriRef::new_unchecked, but the resolver's output is not always an IRI reference there: `x` + `./1:b` gives `1:b` "
                   "(rejected by IriRef::new), `` + `./:` gives `:`, and `x` + `./a:b` gives the absolute IRI `a:b` (RFC 3986 4.2 "
                   "expects `./1:b`, `./a:b`): debug builds panic in new_unchecked, also through the Result-returning &str flavour; "
                   "release builds hand out an IriRef that breaks its invariant", st.loc)
        elif st.kind == "validator-call":
            # new_unchecked on the resolver's output for an absolute base / on re-wrapped values: an RFC 3987 IRI by A9 and L9
            ck.ok("R9.7", st.key, "value produced by the resolver (absolute base) or already validated: accepted by the validator since L9 holds (A9)", nontrivial=False)
        elif st.status in ("auto", "audited"):
            ck.ok("R9.7", st.key, st.reason)
        elif re.search(r"Resolvable<T>>::output_(abs|rel)#unwrap:unwrap:param1$", st.key):
            ck.bad("R9.7", "R9.7@" + st.key, "the typed resolve() unwraps the resolver's Result: resolution itself can fail for accepted operands "
                   "(oxiri reports PathStartingWithTwoSlashes when the RFC 3986 algorithm would yield `scheme://...` from an authority-less "
                   "base, e.g. base `a:/b`, reference `.//c`), so a validated base and a validated reference can panic", st.loc)
        else:
            ck.bad("R9.7", "R9.7@" + st.key, "panic site in the resolution glue is neither guarded nor audited: %s %s (%s)" % (st.kind, st.what, st.detail), st.loc)
    ck.floor("R9.7", "functions of the resolution glue", len(glue), 30)
    ck.floor("L9", "IRI predicates with a decided language", len(langs), 3)
    ck.floor("L9", "context-restricted obligations", len(ctxs), 20)
