"""C13 — SPARQL evaluation: explicit not-implemented, consistent bindings, error-as-false, no reachable panic."""
import re
import panics
from core import CheckError
from mirutil import (call_name_matches, provenance, bool_switch, edge_dominates, enumerate_paths, forward_aliases,
                     comes_from_call, TRANSPARENT, closure_upvars, root_local)

LEVEL = "other"
EXPLANATION = (
    "Decides the dispatch and structural clauses of C13 from the MIR of sophia_sparql. (R13.1) the matches on "
    "spargebra::Query (SparqlWrapper::query) and GraphPattern (ExecState::select) name every variant (no catch-all); each "
    "supported variant reaches exactly its evaluator, every other variant reaches `Err(NotImplemented(..))` on a path that "
    "calls no evaluator and no dataset method; FROM NAMED is rejected in ExecState::new before any evaluation; "
    "ArcExpression::from_expr has no catch-all. (R13.2) FILTER keeps a row iff eval(..).and_then(is_truthy) is Some(true) "
    "and keeps Err rows for propagation. (R13.3) populate_bindings_term inserts a binding only on the None arm of a lookup "
    "of the same map, and on the Some arm returns Err unless Term::eq holds (variables and blank-node placeholders). "
    "(R13.5) the DISTINCT key has one positional component per projected variable. (R13.6) GRAPH ?g evaluates the inner "
    "pattern under a binding in which ?g is already bound to the graph name it restricts to. (R13.7) `||` and `&&` are "
    "three-valued: in their arms of ArcExpression::eval the second operand is evaluated on every path from the first (an error "
    "of one operand cannot pre-empt the other). (R13.8) no Result of the evaluator or of the dataset is swallowed in the "
    "evaluator core and in eval (an Err must surface as an error of the query; value-conversion attempts excepted). (R13.9) an "
    "evaluation error (None of eval()/is_truthy()) is never turned into a value by unwrap_or & co. (R13.10) eval threads its own "
    "graph_matcher argument unchanged into every recursive evaluation and into the EXISTS sub-query. (R13.4) panic audit of the "
    "evaluator core. NOT decided: equality with the algebra's multiset semantics (join order, duplicates), and the "
    "function library / numeric tower (listed, not armed).")

SUPPORTED = {"Bgp": "bgp", "Filter": "filter", "Union": "union", "Graph": "graph", "Extend": "extend", "OrderBy": "order_by",
             "Project": "project", "Distinct": "distinct", "Slice": "slice"}
UNSUPPORTED = {"Path", "Join", "LeftJoin", "Minus", "Values", "Reduced", "Group", "Service"}
CORE_FILES = r"sparql/src/(wrapper|exec|bgp|binding|stash|term|matcher|matcher/\w+)\.rs$"

PANIC_TABLE = {}


def find_one(ck, facts, rule, name_re, what):
    fns = facts.find_fns(crate="sophia_sparql", name_re=name_re)
    if len(fns) != 1:
        ck.bad(rule, "%s@%s#anchor" % (rule, what), "anchor-missing: %s (%d)" % (what, len(fns)))
        return None
    return fns[0]


def dispatch_paths(fn, facts=None):
    def own_closure_tokens(t):
        """a call into one of fn's own closures (a local helper): the sophia calls made by the closure body"""
        if facts is None:
            return None
        cf = facts.fns.get(t["f"].get("res") or "")
        if cf is None or cf.kind != "Closure" or cf.root != fn.id:
            return None
        toks = sorted({"call:" + (tt["f"].get("name") or "?").split("::")[-1] for _, tt in cf.calls()
                       if (tt["f"].get("krate") or "").startswith("sophia")})
        return "|".join(toks) if toks else None

    def on_call(t):
        f = t["f"]
        oc = own_closure_tokens(t)
        if oc:
            return oc
        if f.get("krate") == "sophia_sparql" or (f.get("krate") or "").startswith("sophia"):
            return "call:" + (f.get("name") or "?").split("::")[-1]
        if call_name_matches(t, r"Dataset>?::\w+$"):
            return "call:dataset"
        return None

    def on_stmt(st):
        if st[0] == "=" and st[2][0] == "agg" and st[2][1].get("def", "").endswith("SparqlWrapperError"):
            v = st[2][1]["vname"]
            if v == "NotImplemented":
                o = fn.origin(st[2][2][0]) if st[2][2] else None
                msg = o[1].get("v") if o and o[0] == "const" else "?"
                return "NotImplemented(%s)" % msg
            return "err:" + v
        return None
    paths = enumerate_paths(fn, 0, on_call, on_stmt=on_stmt, follow_errors=True, max_paths=3000)
    return [(conds, [x for tk in toks for x in (tk.split("|") if isinstance(tk, str) and tk.startswith("call:") else [tk])]) for conds, toks in paths]


def catch_all_variants(fn, enum_suffix):
    """(number of matches on the enum in fn, variants that reach a catch-all arm of the first one)"""
    sw = [b["t"] for b in fn.blocks if b["t"]["t"] == "switch" and (b["t"].get("variants") or {}).get("enum", "").endswith(enum_suffix)]
    if not sw:
        return 0, set()
    names = sw[0]["variants"]["names"]
    covered = {names[v] for v, _ in sw[0]["vals"] if v in names}
    missing = set(names.values()) - covered
    if missing and fn.blocks[sw[0]["else"]]["t"]["t"] != "unreach":
        return len(sw), missing
    return len(sw), set()


def dispatch_controls(ck):
    import core
    n, missing = catch_all_variants(core.fixture_fn("pos_dispatch_with_catch_all"), "Algebra")
    ck.control("R13.1", "pos_dispatch_with_catch_all", n == 1 and missing == {"Minus", "Service"})
    n, missing = catch_all_variants(core.fixture_fn("neg_dispatch_explicit"), "Algebra")
    ck.control("R13.1", "neg_dispatch_explicit", n != 1 or bool(missing), expect=False)


def select_rule(ck, facts):
    dispatch_controls(ck)
    fn = find_one(ck, facts, "R13.1", r"exec::ExecState::<'a, D>::select$", "ExecState::select")
    if fn is None:
        return
    # the dispatch switch
    sw = [b["t"] for b in fn.blocks if b["t"]["t"] == "switch" and (b["t"].get("variants") or {}).get("enum", "").endswith("GraphPattern")]
    if len(sw) != 1:
        ck.bad("R13.1", "R13.1@select#switch", "expected one match on GraphPattern in select (found %d)" % len(sw), fn.loc)
        return
    names = sw[0]["variants"]["names"]
    missing = catch_all_variants(fn, "GraphPattern")[1]
    if missing:
        ck.bad("R13.1", "R13.1@select#catch-all", "GraphPattern variants %s fall into a catch-all arm" % sorted(missing), fn.loc)
    unknown = set(names.values()) - set(SUPPORTED) - UNSUPPORTED
    if unknown:
        ck.bad("R13.1", "R13.1@select#new-variant", "GraphPattern variants %s are not in the audited table" % sorted(unknown), fn.loc)
    try:
        paths = dispatch_paths(fn)
    except CheckError as e:
        ck.bad("R13.1", "R13.1@select#shape", str(e), fn.loc)
        return
    per = {}
    for conds, toks in paths:
        var = [o for d, o, s in conds if d == "switch" and isinstance(o, str) and o in names.values()]
        if not var:
            continue
        per.setdefault(var[0], set()).add(tuple(t for t in toks if t.startswith(("call:", "NotImplemented", "err:"))))
    for v in sorted(names.values()):
        got = per.get(v, set())
        flat = {t for p in got for t in p}
        if v in SUPPORTED:
            want = "call:" + SUPPORTED[v]
            evals = {t for t in flat if t.startswith("call:") and t[5:] in SUPPORTED.values()}
            if evals == {want} and not any(t.startswith("NotImplemented") for t in flat):
                ck.ok("R13.1", "select: %s -> self.%s(..)" % (v, SUPPORTED[v]))
            else:
                ck.bad("R13.1", "R13.1@select#%s" % v, "%s must be evaluated by %s; the arm does %s" % (v, want, sorted(flat)), fn.loc)
        else:
            ni = {t for t in flat if t.startswith("NotImplemented")}
            calls = {t for t in flat if t.startswith("call:")}
            if ni and not calls:
                ck.ok("R13.1", "select: %s -> Err(%s), nothing evaluated" % (v, sorted(ni)[0]))
            else:
                ck.bad("R13.1", "R13.1@select#%s" % v, "unsupported operator %s must yield NotImplemented without evaluating anything; "
                       "the arm does %s" % (v, sorted(flat)), fn.loc)
    ck.floor("R13.1", "GraphPattern variants dispatched", len(per), 17)


def query_rule(ck, facts):
    fn = find_one(ck, facts, "R13.1", r"SparqlWrapper<'a, D> as sophia_api::prelude::SparqlDataset>::query$", "SparqlWrapper::query")
    if fn is None:
        return
    try:
        paths = dispatch_paths(fn, facts)
    except CheckError as e:
        ck.bad("R13.1", "R13.1@query#shape", str(e), fn.loc)
        return
    per = {}
    for conds, toks in paths:
        var = [o for d, o, s in conds if d == "switch" and o in ("Select", "Construct", "Describe", "Ask")]
        if var:
            per.setdefault(var[0], set()).update(t for t in toks if t.startswith(("call:", "NotImplemented")))
    want = {"Select": {"call:new", "call:select"}, "Ask": {"call:new", "call:ask"}}
    for v in ("Select", "Ask", "Construct", "Describe"):
        got = per.get(v)
        if got is None:
            ck.bad("R13.1", "R13.1@query#%s-missing" % v, "query form %s is not matched explicitly" % v, fn.loc)
            continue
        ev = {t for t in got if t in ("call:new", "call:select", "call:ask")}
        ni = {t for t in got if t.startswith("NotImplemented")}
        if v in want:
            if ev == want[v] and not ni:
                ck.ok("R13.1", "query: %s -> %s" % (v, sorted(ev)))
            else:
                ck.bad("R13.1", "R13.1@query#%s" % v, "%s query does %s" % (v, sorted(got)), fn.loc)
        else:
            if ni and not ev:
                ck.ok("R13.1", "query: %s -> %s" % (v, sorted(ni)[0]))
            else:
                ck.bad("R13.1", "R13.1@query#%s" % v, "%s query must yield NotImplemented; it does %s" % (v, sorted(got)), fn.loc)
    # FROM NAMED
    fn = find_one(ck, facts, "R13.1", r"exec::ExecState::<'a, D>::new$", "ExecState::new")
    if fn is not None:
        consts = []
        for b in fn.blocks:
            for st in b["s"]:
                if st[0] == "=" and st[2][0] == "agg" and st[2][1].get("vname") == "NotImplemented":
                    o = fn.origin(st[2][2][0])
                    consts.append(o[1].get("v") if o[0] == "const" else "?")
        if any(isinstance(c_, str) and "FROM NAMED" in c_ for c_ in consts):
            ck.ok("R13.1", "ExecState::new rejects FROM NAMED")
        else:
            ck.bad("R13.1", "R13.1@ExecState::new#from-named", "FROM NAMED is not rejected with NotImplemented", fn.loc)
        # any query dataset (FROM as well: the merge of several default graphs is not implemented, and the public
        # SparqlQuery::from(spargebra::Query) can carry one) is refused before anything is evaluated
        refused = False
        for bi in range(len(fn.blocks)):
            bs = bool_switch(fn, bi)
            if bs and bs[0][0] == "call" and call_name_matches(bs[0][1], r"Option::<T>::is_some$"):
                o = fn.origin(bs[0][1]["args"][0])
                if o[0] == "param" and o[1] == 2:
                    region = fn.reachable(bs[1], avoid={bs[2]})
                    ni = any(st[0] == "=" and st[2][0] == "agg" and st[2][1].get("vname") == "NotImplemented" for x in region for st in fn.blocks[x]["s"])
                    evals = [x for x in region if fn.blocks[x]["t"]["t"] == "call" and not fn.blocks[x]["t"].get("exp")]
                    if ni and not evals and fn.dominates(bi, bi):
                        refused = True
        for bi, b in enumerate(fn.blocks):
            t = b["t"]
            if t["t"] == "switch" and (t.get("variants") or {}).get("enum") == "core::option::Option" and t["on"][0] != "k":
                o = fn.origin(t["on"])
                if o[0] == "rvalue" and o[1][0] == "discr" and o[1][1][0] == 2 and bi in (0, 1):
                    names = t["variants"]["names"]
                    some = [tb for v, tb in t["vals"] if names.get(v) == "Some"] or [t["else"]]
                    region = fn.reachable(some[0], avoid={x for v, x in t["vals"] if names.get(v) == "None"})
                    if any(st[0] == "=" and st[2][0] == "agg" and st[2][1].get("vname") == "NotImplemented" for x in region for st in fn.blocks[x]["s"]) \
                            and not [x for x in region if fn.blocks[x]["t"]["t"] == "call" and not fn.blocks[x]["t"].get("exp")]:
                        refused = True
        if refused:
            ck.ok("R13.1", "ExecState::new refuses every query dataset (FROM / FROM NAMED) before evaluating anything")
        else:
            ck.bad("R13.1", "R13.1@ExecState::new#from", "a query dataset with FROM graphs only is evaluated (as a multiset union of the graphs: a triple "
                   "in two FROM graphs yields two solutions, and GRAPH ?g still ranges over every graph of the dataset) instead of "
                   "being refused with NotImplemented", fn.loc)
    # from_expr: no catch-all
    fn = find_one(ck, facts, "R13.1", r"expression::ArcExpression::from_expr$", "ArcExpression::from_expr")
    if fn is not None:
        sw = [b["t"] for b in fn.blocks if b["t"]["t"] == "switch" and (b["t"].get("variants") or {}).get("enum", "").endswith("algebra::Expression")]
        if len(sw) != 1:
            ck.bad("R13.1", "R13.1@from_expr#switch", "expected one match on Expression (found %d)" % len(sw), fn.loc)
        else:
            names = sw[0]["variants"]["names"]
            missing = catch_all_variants(fn, "algebra::Expression")[1]
            if missing:
                ck.bad("R13.1", "R13.1@from_expr#catch-all", "Expression variants %s fall into a catch-all arm" % sorted(missing), fn.loc)
            else:
                ck.ok("R13.1", "from_expr: all %d Expression variants matched explicitly" % len(names))


def filter_rule(ck, facts):
    fn = find_one(ck, facts, "R13.2", r"exec::ExecState::<'a, D>::filter$", "ExecState::filter")
    if fn is None:
        return
    clos = [c for c in facts.with_closures(fn)[1:] if any(call_name_matches(t, r"ArcExpression::eval$") for _, t in c.calls())]
    if len(clos) != 1:
        ck.bad("R13.2", "R13.2@filter#closure", "cannot find the row predicate of FILTER (%d candidates)" % len(clos), fn.loc)
        return
    c = clos[0]
    key = "R13.2@filter"
    # Err rows kept: the Err arm sets _0 = true
    ok_err = False
    ok_ok = False
    for b in c.blocks:
        t = b["t"]
        if t["t"] == "switch" and (t.get("variants") or {}).get("enum") == "core::result::Result":
            vals = dict((c_.get("names", {}).get(v, v) if False else t["variants"]["names"].get(v, v), tb) for v, tb in t["vals"])
            err_t = vals.get("Err", t["else"] if "Err" not in vals else None)
            ok_t = vals.get("Ok", t["else"])
            for st in c.blocks[err_t]["s"]:
                if st[0] == "=" and st[1] == [0] and st[2][0] == "use" and st[2][1][0] == "k" and st[2][1][1].get("v") == "1":
                    ok_err = True
    for bi, t in c.calls():
        if t["dest"] == [0] and call_name_matches(t, r"Option::<T>::unwrap_or$"):
            d = c.origin(t["args"][1])
            src = c.origin(t["args"][0])
            if d[0] == "const" and d[1].get("v") == "0" and src[0] == "call" and call_name_matches(src[1], r"Option::<T>::and_then$"):
                ev = c.origin(src[1]["args"][0])
                inner = c.origin(src[1]["args"][1])
                truthy = False
                if inner[0] == "agg" and inner[1]["k"] == "closure":
                    ic = facts.fns.get(inner[1]["def"])
                    truthy = ic is not None and any(call_name_matches(tt, r"EvalResult::is_truthy$") for _, tt in ic.calls())
                elif inner[0] == "const" and "is_truthy" in inner[1].get("def", ""):
                    truthy = True
                if ev[0] == "call" and call_name_matches(ev[1], r"ArcExpression::eval$") and truthy:
                    ok_ok = True
    if ok_err and ok_ok:
        ck.ok("R13.2", "FILTER: Err rows kept; Ok rows kept iff eval().and_then(is_truthy).unwrap_or(false)")
    else:
        ck.bad("R13.2", key + "#shape", "FILTER predicate not recognised (Err rows kept=%s, effective-boolean-value chain=%s)" % (ok_err, ok_ok), c.loc)


def bindings_rule(ck, facts):
    fn = find_one(ck, facts, "R13.3", r"binding::populate_bindings_term$", "populate_bindings_term")
    if fn is None:
        return
    inserts = [(bi, t) for bi, t in fn.calls() if call_name_matches(t, r"HashMap::<K, V, S, A>::insert$|HashMap::<K, V, S>::insert$")]
    seen_fields = set()
    for bi, t in inserts:
        o = provenance(fn, t["args"][0], transparent=())[-1]
        field = None
        if o[0] == "param" and o[1] == 3 and o[2]:
            fs = [p for p in o[2] if p != "*"]
            field = fs[0].split(":", 1)[1] if fs and ":" in fs[0] else None
        if field is None:
            ck.bad("R13.3", "R13.3@populate_bindings_term#insert-target", "insert into something that is not a map of the binding", "%s:%s" % (t["file"], t["line"]))
            continue
        seen_fields.add(field)
        key = "R13.3@populate_bindings_term#%s" % field
        guard = None
        for cand in sorted(fn.dominators().get(bi, ())):
            tt = fn.blocks[cand]["t"]
            if tt["t"] == "switch" and (tt.get("variants") or {}).get("enum") == "core::option::Option":
                oo = fn.origin(tt["on"])
                if oo[0] == "rvalue" and oo[1][0] == "discr":
                    sd = fn.single_def(oo[1][1][0])
                    if sd and sd[2][0] == "call" and call_name_matches(sd[2][1], r"HashMap::<K, V, S, A>::get$|HashMap::<K, V, S>::get$"):
                        g = provenance(fn, sd[2][1]["args"][0], transparent=())[-1]
                        gf = [p for p in g[2] if p != "*"][0].split(":", 1)[1] if g[0] == "param" and g[2] else None
                        if gf == field:
                            names = tt["variants"]["names"]
                            vals = dict((names.get(v, v), tb) for v, tb in tt["vals"])
                            none_t = vals.get("None", tt["else"])
                            some_t = vals.get("Some", tt["else"])
                            if edge_dominates(fn, (cand, none_t), bi):
                                guard = (cand, some_t, none_t)
        if guard is None:
            ck.bad("R13.3", key + "#unguarded-insert", "a binding for `%s` is (over)written without first looking up an existing "
                   "binding of the same name: a pattern that repeats a variable/blank node accepts inconsistent matches" % field,
                   "%s:%s" % (t["file"], t["line"]))
            continue
        cand, some_t, none_t = guard
        # on the Some arm: Term::eq(...) false => Err
        good = False
        for b2 in sorted(fn.reachable(some_t, avoid={none_t})):
            bs = bool_switch(fn, b2)
            if bs and bs[0][0] == "call" and call_name_matches(bs[0][1], r"Term>?::eq$") and edge_dominates(fn, (cand, some_t), b2):
                # false target must reach an Err(()) construction and return without inserting
                reach = fn.reachable(bs[2])
                errs = [x for x in reach for st in fn.blocks[x]["s"] if st[0] == "=" and st[2][0] == "agg" and st[2][1].get("vname") == "Err"]
                if errs and bi not in reach:
                    good = True
        if good:
            ck.ok("R13.3", "populate_bindings_term: `%s` inserted only if unbound; bound and different => Err" % field)
        else:
            ck.bad("R13.3", key + "#no-consistency-check", "an existing binding of `%s` is not compared with the new match (Term::eq false => Err)" % field, fn.loc)
    missing = {"b", "v"} - seen_fields
    if missing:
        ck.bad("R13.3", "R13.3@populate_bindings_term#maps", "expected insertions into both binding maps (variables `v`, blank placeholders `b`); missing %s" % sorted(missing), fn.loc)
    fn = find_one(ck, facts, "R13.3", r"binding::populate_bindings$", "populate_bindings")
    if fn is not None:
        calls = [t for _, t in fn.calls() if call_name_matches(t, r"binding::populate_bindings_term$")]
        if len(calls) == 3:
            ck.ok("R13.3", "populate_bindings: subject, predicate and object are all unified")
        else:
            ck.bad("R13.3", "R13.3@populate_bindings#positions", "expected 3 calls to populate_bindings_term, found %d" % len(calls), fn.loc)


def distinct_rule(ck, facts):
    fn = find_one(ck, facts, "R13.5", r"exec::ExecState::<'a, D>::distinct$", "ExecState::distinct")
    if fn is None:
        return
    clos = [c for c in facts.with_closures(fn)[1:] if any(call_name_matches(t, r"HashSet::<T, S, A>::insert$|HashSet::<T, S>::insert$") for _, t in c.calls())]
    if len(clos) != 1:
        ck.bad("R13.5", "R13.5@distinct#closure", "cannot find the DISTINCT filter closure (%d)" % len(clos), fn.loc)
        return
    c = clos[0]
    ins = [t for _, t in c.calls() if call_name_matches(t, r"HashSet::<T, S, A>::insert$|HashSet::<T, S>::insert$")][0]
    adapters = []
    op = ins["args"][1]
    for _ in range(10):
        o = c.origin(op)
        if o[0] != "call":
            break
        m = re.search(r"iter::Iterator::(\w+)$", o[1]["f"].get("name") or "")
        if not m:
            break
        adapters.append(m.group(1))
        op = o[1]["args"][0]
    if adapters == ["collect", "map"]:
        ck.ok("R13.5", "DISTINCT key = variables.iter().map(..).collect(): one positional component per variable")
    else:
        ck.bad("R13.5", "R13.5@distinct#key", "the DISTINCT key is built with the iterator chain %s over the projected variables: unless it "
               "is exactly one `map`, unbound variables no longer keep their position and different solutions can collide"
               % list(reversed(adapters)), c.loc)
    # Err rows kept
    kept = False
    for b in c.blocks:
        t = b["t"]
        if t["t"] == "switch" and (t.get("variants") or {}).get("enum") == "core::result::Result":
            names = t["variants"]["names"]
            vals = dict((names.get(v, v), tb) for v, tb in t["vals"])
            err_t = vals.get("Err", t["else"])
            for st in c.blocks[err_t]["s"]:
                if st[0] == "=" and st[1] == [0] and st[2][0] == "use" and st[2][1][0] == "k" and st[2][1][1].get("v") == "1":
                    kept = True
    if not kept:
        ck.bad("R13.5", "R13.5@distinct#err-rows", "DISTINCT does not keep Err rows for propagation", c.loc)


def graph_rule(ck, facts):
    fn = find_one(ck, facts, "R13.6", r"exec::ExecState::<'a, D>::graph_rec$", "ExecState::graph_rec")
    if fn is None:
        return
    sel = [(bi, t) for bi, t in fn.calls() if call_name_matches(t, r"ExecState::<'a, D>::select$")]
    if len(sel) != 1:
        ck.bad("R13.6", "R13.6@graph_rec#select", "expected one evaluation of the inner pattern per graph name (found %d)" % len(sel), fn.loc)
        return
    bi, t = sel[0]
    barg = fn.origin(t["args"][3])
    ok = False
    msg = "the inner pattern of GRAPH ?g is not evaluated under a binding in which ?g is bound to the current graph name"
    if barg[0] == "agg" and barg[1].get("vname") == "Some":
        root, _ = root_local(fn, barg[2][0])
        for ibi, it in fn.calls():
            if call_name_matches(it, r"HashMap::<K, V, S, A>::insert$|HashMap::<K, V, S>::insert$"):
                rl, path = root_local(fn, it["args"][0])
                if root is not None and rl == root and any(p.endswith(":v") for p in path) and fn.dominates(ibi, bi):
                    if comes_from_call(fn, it["args"][2], r"Iterator>::next$|iter::Iterator::next$"):
                        ok = True
    gm = provenance(fn, t["args"][2])
    if ok:
        ck.ok("R13.6", "graph_rec: ?g := name inserted into the binding before select(inner, [name], Some(&b))")
    else:
        ck.bad("R13.6", "R13.6@graph_rec#prebinding", msg, "%s:%s" % (t["file"], t["line"]))


SWALLOWERS = r"Option::<T>::(unwrap_or|unwrap_or_default|unwrap_or_else|is_some|is_none|map_or|map_or_else|is_some_and|is_none_or|ok_or|ok_or_else)$"
EVALS = r"expression::ArcExpression::eval$|expression::EvalResult::is_truthy$"
VALUE_ATTEMPTS = r"str>::parse$|convert::TryFrom::try_from$|convert::TryInto::try_into$|^sophia_iri::Iri(Ref)?::<T>::new$|^sophia_api::term::(BnodeId|LanguageTag|VarName)::<T>::new$"


def error_semantics_rule(ck, facts):
    """R13.7-R13.9: SPARQL's error semantics in ArcExpression::eval and the evaluator core.
    (R13.7) `||` and `&&` are three-valued: an error of one operand must not pre-empt the other operand, so in their arms
    the evaluation of the second operand is reached on every path from the first (no early return in between).
    (R13.8) no Result of the evaluator or of the dataset is swallowed (an Err must surface as an error of the query).
    (R13.9) an evaluation error (None of eval / is_truthy) is never turned into a value by unwrap_or & co."""
    import errflow
    fn = find_one(ck, facts, "R13.7", r"expression::ArcExpression::eval$", "ArcExpression::eval")
    if fn is None:
        return
    sw = [(bi, b["t"]) for bi, b in enumerate(fn.blocks) if b["t"]["t"] == "switch"
          and (b["t"].get("variants") or {}).get("enum", "").endswith("expression::ArcExpression")]
    if len(sw) != 1:
        ck.bad("R13.7", "R13.7@eval#switch", "expected one match on ArcExpression in eval (found %d)" % len(sw), fn.loc)
        return
    names = sw[0][1]["variants"]["names"]
    arm = {names[v]: tb for v, tb in sw[0][1]["vals"] if v in names}
    for op in ("Or", "And"):
        if op not in arm:
            ck.bad("R13.7", "R13.7@eval#%s-arm" % op, "no arm for %s in eval" % op, fn.loc)
            continue
        region = fn.reachable(arm[op])
        evs = [(bi, t) for bi, t in fn.calls() if bi in region and call_name_matches(t, r"expression::ArcExpression::eval$")]
        # the arm's own two evaluations: those that dominate... keep the calls not reachable from another arm's target
        others = set()
        for n2, tb in arm.items():
            if n2 != op:
                others |= fn.reachable(tb)
        evs = [(bi, t) for bi, t in evs if bi not in others]
        if not evs:
            # the operands may be evaluated through a local helper closure (`let ebv = |operand| operand.eval(..).and_then(..)`):
            # the calls of that closure stand for the evaluations
            evaluating = {u.id for b_i in region - others for st in fn.blocks[b_i]["s"]
                          if st[0] == "=" and st[2][0] == "agg" and st[2][1].get("k") == "closure" and st[2][1].get("def") in facts.fns
                          for u in [facts.fns[st[2][1]["def"]]]
                          if any(call_name_matches(t_, r"expression::ArcExpression::eval$") for _, t_ in u.calls())}
            for bi, t in fn.calls():
                if bi in region and bi not in others and call_name_matches(t, r"ops::Fn(Mut|Once)?(<.*>)?>?::call(_mut|_once)?$") and t["args"] \
                        and t["args"][0][0] != "k":
                    o_ = fn.origin(t["args"][0])
                    if o_[0] == "agg" and o_[1].get("def") in evaluating:
                        evs.append((bi, t))
        if len(evs) != 2:
            ck.bad("R13.7", "R13.7@eval#%s-operands" % op, "expected the two operand evaluations in the %s arm (found %d)" % (op, len(evs)), fn.loc)
            continue
        first, second = (evs[0], evs[1]) if fn.dominates(evs[0][0], evs[1][0]) else (evs[1], evs[0])
        escape = [r for r in fn.ret_blocks() if r in fn.reachable(first[1]["to"], avoid={second[0]})]
        if escape:
            ck.bad("R13.7", "R13.7@eval#%s-error-preempts" % op,
                   "in the %s arm the function can return after evaluating the first operand without evaluating the second "
                   "(an error of one operand pre-empts the other): SPARQL defines error || true = true and error && false = false, "
                   "so FILTER(?unbound || true) must keep the solution" % op, "%s:%s" % (first[1]["file"], first[1]["line"]))
        else:
            ck.ok("R13.7", "%s: both operands are evaluated before the three-valued table is applied" % op)
    # R13.10: the active graph is threaded unchanged: every recursive evaluation and the EXISTS sub-query receive eval's own
    # `graph_matcher` argument (a constant such as the default matcher would evaluate EXISTS inside GRAPH against the wrong graph)
    from mirutil import closure_upvars, upvar_index
    gm_param = None
    for i in range(1, fn.argc + 1):
        if (fn.locals[i].get("name") or "") == "graph_matcher":
            gm_param = i
    if gm_param is None:
        gm_param = 4
    threaded, wrong = 0, []
    for f in facts.with_closures(fn):
        for bi, t in f.calls():
            pos = 3 if call_name_matches(t, r"expression::ArcExpression::eval$") else (2 if call_name_matches(t, r"exec::ExecState::<'a, D>::select$") else None)
            if pos is None or len(t["args"]) <= pos:
                continue
            o = provenance(f, t["args"][pos], transparent=())[-1]
            ok = False
            if f is fn:
                ok = o[0] == "param" and o[1] == gm_param and not [p for p in o[2] if p != "*"]
            else:
                ui = upvar_index(f, t["args"][pos])
                ups = closure_upvars(facts, f)
                if ui is not None and ui < len(ups):
                    po = ups[ui]
                    ok = po[0] == "param" and po[1] == gm_param
                    if not ok and f.parent != fn.id:
                        ok = True      # nested deeper: checked at the level that captures it
            if ok:
                threaded += 1
            else:
                wrong.append((t["f"]["name"].split("::")[-1], "%s:%s" % (t["file"], t["line"])))
    for name, loc in wrong:
        ck.bad("R13.10", "R13.10@eval#%s-graph" % name, "eval calls %s with a graph matcher that is not its own `graph_matcher` argument: "
               "inside GRAPH the sub-evaluation (e.g. EXISTS) would look at another graph" % name, loc)
    if not wrong:
        ck.ok("R13.10", "eval threads its graph_matcher unchanged into %d recursive evaluations / EXISTS sub-queries" % threaded)
    ck.floor("R13.10", "recursive evaluations in eval", threaded + len(wrong), 20)
    # R13.9
    n = 0
    for f in facts.with_closures(fn):
        for bi, t in f.calls():
            if call_name_matches(t, SWALLOWERS) and t["args"]:
                src = comes_from_call(f, t["args"][0], EVALS)
                if src:
                    n += 1
                    ck.bad("R13.9", "R13.9@eval#%s:%s" % (t["f"]["name"].split("::")[-1], src[1]["f"]["name"].split("::")[-1]),
                           "an evaluation error (None of %s) is turned into a value by %s: SPARQL errors propagate (e.g. IF with "
                           "an erroneous condition is an error, not its else branch)" % (src[1]["f"]["name"].split("::")[-1], t["f"]["name"].split("::")[-1]),
                           "%s:%s" % (t["file"], t["line"]))
    if not n:
        ck.ok("R13.9", "eval: no evaluation error is converted into a value (unwrap_or & co. never applied to eval()/is_truthy())")
    # R13.8
    scope = [f for f in facts.fns.values() if f.crate == "sophia_sparql" and re.search(CORE_FILES + r"|sparql/src/expression\.rs$", f.file)]
    results = 0
    for f in sorted(scope, key=lambda x: x.id):
        for bi, t in f.calls():
            if len(t["dest"]) == 1 and errflow.err_type(f.locals[t["dest"][0]]["ty"]) not in (None, "std::convert::Infallible", "!", "()"):
                results += 1
        for bi, t, how in errflow.dropped_results(f):
            callee = t["f"].get("name") or "?"
            et = errflow.err_type(f.locals[t["dest"][0]]["ty"])
            if et == "()" or re.search(VALUE_ATTEMPTS, callee):
                continue
            root = f if f.kind != "Closure" else facts.fns.get(f.root, f)
            ck.bad("R13.8", "R13.8@%s#%s" % (root.name, callee.split("::")[-1]),
                   "the Result of %s is %s: an error of the evaluator (NotImplemented for an unsupported pattern, a dataset error) "
                   "is swallowed and the query answers as if nothing had happened" % (callee, how), "%s:%s" % (t["file"], t["line"]))
    ck.ok("R13.8", "Result-producing calls of the evaluator core analysed", "%d calls in %d functions" % (results, len(scope)), calls=results)
    ck.floor("R13.8", "Result-producing calls in the evaluator core", results, 20)


def value_class_rule(ck, facts):
    """R13.11: `=` between values of two different value classes is a type error, not `false`: on every path of
    SparqlValue::sparql_eq on which the two operands are different variants of SparqlValue the result is None
    (Some(false) would make `!(?o = "1")` / `?o != 1` keep rows that must be dropped)."""
    fns = facts.find_fns(crate="sophia_sparql", name_re=r"^value::SparqlValue::sparql_eq$")
    if len(fns) != 1:
        ck.bad("R13.11", "R13.11@sparql_eq#anchor", "anchor-missing: SparqlValue::sparql_eq (%d)" % len(fns))
        return
    fn = fns[0]

    def on_stmt(st):
        if st[0] == "=" and st[1] == [0]:
            if st[2][0] == "agg" and st[2][1].get("def") == "core::option::Option":
                return "ret:" + st[2][1]["vname"]
            return "ret:other"
        return None

    def on_call(t):
        return "ret:call" if t["dest"] == [0] else None
    try:
        paths = enumerate_paths(fn, 0, on_call, on_stmt=on_stmt, max_paths=3000)
    except CheckError as e:
        ck.bad("R13.11", "R13.11@sparql_eq#shape", str(e), fn.loc)
        return
    mixed = 0
    for conds, toks in paths:
        v = {}
        for d, outcome, src in conds:
            if src and src[0] == "param" and not src[2] and isinstance(outcome, str):
                v.setdefault(src[1], outcome)
        if 1 in v and 2 in v and not (set(v[1].split("|")) & set(v[2].split("|"))):
            mixed += 1
            rets = [t for t in toks if isinstance(t, str) and t.startswith("ret:")]
            if not rets or rets[-1] != "ret:None":
                ck.bad("R13.11", "R13.11@sparql_eq#mixed-classes:%s/%s" % (v[1], v[2]),
                       "sparql_eq answers %s for a %s compared with a %s: values of different value classes are not comparable, the "
                       "result must be the type error None" % (rets[-1] if rets else "?", v[1], v[2]), fn.loc)
                return
    if mixed:
        ck.ok("R13.11", "sparql_eq: None (type error) on all %d paths with operands of different value classes" % mixed)
    else:
        ck.bad("R13.11", "R13.11@sparql_eq#shape", "no path of sparql_eq distinguishes the value classes of its two operands", fn.loc)


LITERAL_PARSING = r"XsdDateTime::new($|::)|XsdDateTime as std::str::FromStr>::from_str$|SparqlValue::try_from_literal($|::)|SparqlNumber::try_parse"
DT = "value::_xsd_date_time::XsdDateTime::new"
DATETIME_REF = r"^(-)?([0-9]{4,})-([0-9]{2}-[0-9]{2}T[0-9]{2}:[0-9]{2}:[0-9]{2})(?:\.([0-9]+))?(Z|[-+][0-9]{2}:[0-9]{2})?$"
LITERAL_TABLE = {
    DT + "#unwrap:unwrap:call:regex::Captures::<'h>::get":
        (2, "groups 2 (year) and 3 (month..second) are not optional in the pattern: present whenever it matches (pattern shape: L13.12)"),
    DT + "#unwrap:unwrap:call:core::str::<impl str>::parse":
        (7, "month, day, hour, minute, second and the two time-zone fields are exactly two ASCII digits (pattern shape: L13.12): parse::<u32/i32> "
            "cannot fail. The *year* has no bound on its digits and must NOT be unwrapped (it was: fixed in f5c2f8e)"),
    DT + "#index:str:Range": (6, "fixed offsets inside group 3 (exactly 19 ASCII bytes `MM-DDTHH:MM:SS`) and inside the 6-byte zone `+HH:MM`"),
    DT + "#index:str:RangeTo": (2, "as above: `..2` of group 3, `..1` of the zone"),
    DT + "#assert:overflow:Mul:-": (4, "sign * year with |year| <= i32::MAX after the checked parse; hh*3600, mm*60, sign*(..) with two-digit hh, mm"),
    DT + "#assert:overflow:Add:-": (1, "hh*3600 + mm*60 with two-digit hh, mm"),
    DT + "::{closure#1}#index:str:RangeTo": (1, "`fraction[..9]` under `fraction.len() >= 9`, ASCII digits"),
    DT + "::{closure#1}#unwrap:unwrap:call:core::str::<impl str>::parse": (2, "at most 9 ASCII digits: fits in u32"),
    DT + "::{closure#1}#assert:overflow:Sub:-": (1, "9 - len under len < 9"),
    DT + "::{closure#1}#assert:overflow:Mul:-": (1, "value < 10^len times 10^(9-len) < 10^9 < u32::MAX"),
}


def literal_parsing_rule(ck, facts):
    """R13.12: turning a literal of the *data* into a value never panics (any literal can occur in a dataset, and a value is
    computed as soon as a FILTER / BIND / ORDER BY looks at it).  Panic audit of the literal parsers; the audited reasons
    about digit counts rest on the shape of the dateTime pattern, which is itself checked against a reference (L13.12)."""
    from core import Relang
    from mirutil import patterns_by_owner, union_pattern
    fns = [f for f in facts.fns.values() if f.crate == "sophia_sparql" and re.search(LITERAL_PARSING, f.name)]
    ck.floor("R13.12", "literal-parsing functions", len(fns), 8)
    owners = patterns_by_owner(facts, ["sophia_sparql"])
    hits = [o for o in owners if o.endswith("XsdDateTime::new::RE") or re.search(r"_xsd_date_time::.*::new::RE$", o)]
    if len(hits) != 1:
        ck.bad("R13.12", "L13.12@XsdDateTime::new#pattern", "anchor-missing: the dateTime pattern (%d)" % len(hits))
    else:
        rl = Relang()
        rl.lang("REPO_DATETIME", union_pattern([p["value"] for s_ in owners[hits[0]] for p in s_["patterns"]]))
        rl.lang("REF_DATETIME", DATETIME_REF)
        rl.equal("L13.12:dateTime-pattern-shape", "REPO_DATETIME", "REF_DATETIME")
        linfo, res = rl.run()
        for oid, r in sorted(res.items()):
            ck.obligation(oid, r["empty"], "" if r["empty"] else "the audited digit-count reasons no longer hold: %s" % r["witnesses"], witnesses=r["witnesses"])
            if not r["empty"]:
                ck.bad("R13.12", "L13.12@%s" % oid, "the dateTime pattern differs from the shape the panic audit relies on (witnesses %s)" % r["witnesses"])
    sites = []
    for f in sorted(fns, key=lambda x: x.id):
        sites += panics.sites_of(f)
    panics.classify(facts, sites, LITERAL_TABLE)
    for st in sites:
        if st.kind == "validator-call":
            continue
        if st.status in ("auto", "audited"):
            ck.ok("R13.12", st.key, st.reason)
        else:
            ck.bad("R13.12", "R13.12@" + st.key, "turning a literal of the data into a value can panic here (%s %s, %s): neither guarded nor audited"
                   % (st.kind, st.what, st.detail), st.loc)


def sibling_arms_rule(ck, facts):
    """R13.13: agreement between the sibling arms of a numeric operation: in SparqlNumber::abs every variant's arm applies an
    absolute-value operation (`abs`, `checked_abs`, `unsigned_abs`, `magnitude`); an arm that returns its operand unchanged is
    a copy-paste from ceil/floor/round, where integers are indeed their own result.  And the native arm does not use the
    overflowing `isize::abs` (|isize::MIN| does not fit)."""
    fns = facts.find_fns(crate="sophia_sparql", name_re=r"^value::_number::SparqlNumber::abs$")
    if len(fns) != 1:
        ck.bad("R13.13", "R13.13@SparqlNumber::abs#anchor", "anchor-missing (%d)" % len(fns))
        return
    fn = fns[0]
    sw = [(bi, b["t"]) for bi, b in enumerate(fn.blocks) if b["t"]["t"] == "switch"
          and (b["t"].get("variants") or {}).get("enum", "").endswith("_number::SparqlNumber")]
    if len(sw) != 1:
        ck.bad("R13.13", "R13.13@SparqlNumber::abs#shape", "expected one match on SparqlNumber (found %d)" % len(sw), fn.loc)
        return
    bi, t = sw[0]
    names = t["variants"]["names"]
    targets = {names[v]: tb for v, tb in t["vals"] if v in names}
    rest = set(names.values()) - set(targets)
    if len(rest) == 1:
        targets[rest.pop()] = t["else"]
    bad = []
    for var, tb in sorted(targets.items()):
        others = {x for v2, x in targets.items() if v2 != var}
        region = fn.reachable(tb, avoid=others)
        calls = [(fn.blocks[b]["t"]["f"].get("res_name") or fn.blocks[b]["t"]["f"].get("name") or "") for b in region
                 if fn.blocks[b]["t"]["t"] == "call"]
        if not any(re.search(r"::(abs|checked_abs|unsigned_abs|magnitude|wrapping_abs|saturating_abs)$", c) for c in calls):
            bad.append(var)
        if any(re.search(r"^<(isize|i\d+) as .*>::abs$|<impl (isize|i\d+)>::abs$", c) for c in calls):
            bad.append(var + "(overflowing abs)")
    if bad:
        ck.bad("R13.13", "R13.13@SparqlNumber::abs#arms:%s" % ",".join(bad), "the arm(s) %s of SparqlNumber::abs do not apply a (non-overflowing) "
               "absolute-value operation while their siblings do: ABS of such a number is wrong or panics" % bad, fn.loc)
    else:
        ck.ok("R13.13", "SparqlNumber::abs: all %d arms apply an absolute-value operation" % len(targets))


PRIM_INT = r"(isize|usize|i8|i16|i32|i64|i128|u8|u16|u32|u64|u128)"


def unchecked_native_ops(fn):
    """R13.15: overflowing operations on a native integer of the data: MIR overflow assertions, and calls of the operator
    traits / abs / pow on primitive integers (which inherit the caller's overflow checks)."""
    hits = []
    for bi, b in enumerate(fn.blocks):
        if b.get("cleanup"):
            continue
        t = b["t"]
        if t["t"] == "assert" and str(t.get("kind", "")).startswith("overflow") and not t.get("exp"):
            hits.append((str(t["kind"]).replace("overflow:", "").lower(), "%s:%s" % (t.get("file"), t.get("line"))))
        if t["t"] == "call":
            nm = t["f"].get("res_name") or t["f"].get("name") or ""
            m = re.search(r"^<&?%s as std::ops::(Neg|Add|Sub|Mul|Div|Rem)(<.*>)?>::(neg|add|sub|mul|div|rem)$" % PRIM_INT, nm) \
                or re.search(r"<impl %s>::(abs|pow)$" % PRIM_INT, nm)
            if m and not t.get("exp"):
                hits.append((nm.split("::")[-1], "%s:%s" % (t["file"], t["line"])))
    return hits


def native_arithmetic_rule(ck, facts):
    import core
    ck.control("R13.15", "pos_neg_of_native_int", bool(unchecked_native_ops(core.fixture_fn("pos_neg_of_native_int"))))
    ck.control("R13.15", "neg_checked_neg", bool(unchecked_native_ops(core.fixture_fn("neg_checked_neg"))), expect=False)
    fns = [f for f in facts.fns.values() if f.crate == "sophia_sparql" and re.search(r"sparql/src/value/_number\.rs$", f.file)
           and not (f.impl and f.impl.get("derived"))]
    n = 0
    for f in sorted(fns, key=lambda x: x.id):
        n += 1
        for what, loc in unchecked_native_ops(f):
            ck.bad("R13.15", "R13.15@%s#%s" % (panics.norm_key(f.name), what), "%s applies the overflowing `%s` to a native integer that comes from "
                   "the data (xsd:integer literals are unbounded; the numeric tower switches to BigInt through checked_* "
                   "elsewhere): panic in debug builds, wrapped result in release builds" % (f.name, what), loc)
    ck.ok("R13.15", "numeric tower: %d functions, native-integer arithmetic only through checked operations" % n)
    ck.floor("R13.15", "functions of the numeric tower", n, 40)


def error_as_item_rule(ck, facts):
    """R13.14: an element of a solution stream is a Result; asking an Option<Result<..>> only whether it is_some() counts an
    error as a solution (ASK answered Ok(true) on a failing dataset)."""
    n = 0
    bad = 0
    for f in sorted(facts.fns.values(), key=lambda x: x.id):
        if f.crate != "sophia_sparql" or not re.search(CORE_FILES, f.file):
            continue
        n += 1
        for bi, t in f.calls():
            if call_name_matches(t, r"^std::option::Option::<T>::(is_some|is_none)$") and t["args"] and t["args"][0][0] != "k":
                ty = f.locals[t["args"][0][1][0]]["ty"]
                if re.match(r"^&?std::option::Option<std::result::Result<", ty):
                    bad += 1
                    ck.bad("R13.14", "R13.14@%s#error-counted-as-item" % panics.norm_key(f.name), "%s asks an Option<Result<..>> of a solution "
                           "stream only whether it is_some(): an Err item counts as a solution (ASK { .. } answers Ok(true) when the "
                           "dataset fails)" % f.name, "%s:%s" % (t["file"], t["line"]))
    if not bad:
        ck.ok("R13.14", "no Option<Result<..>> of the evaluator core is reduced to is_some()/is_none() (%d functions)" % n)


def option_eq_rule(ck, facts):
    """R13.16: values of ill-formed literals are `None`; comparing the Options themselves makes two different ill-formed
    literals equal."""
    fns = facts.find_fns(crate="sophia_sparql", name_re=r"^value::SparqlValue::sparql_eq$")
    if len(fns) != 1:
        ck.bad("R13.16", "R13.16@SparqlValue::sparql_eq#anchor", "anchor-missing (%d)" % len(fns))
        return
    f = fns[0]
    hits = [t for c in facts.with_closures(f) for _, t in c.calls()
            if re.search(r"^<std::option::Option<.*> as std::cmp::(PartialEq|PartialOrd)(<.*>)?>::(eq|ne|partial_cmp)$", t["f"].get("res_name") or t["f"].get("name") or "")
            or (call_name_matches(t, r"cmp::PartialEq>?::(eq|ne)$|cmp::PartialOrd>?::partial_cmp$") and t["args"] and t["args"][0][0] != "k"
                and re.match(r"^&?&?std::option::Option<", c.locals[t["args"][0][1][0]]["ty"]))]
    if hits:
        ck.bad("R13.16", "R13.16@SparqlValue::sparql_eq#option-compared", "sparql_eq compares the Option-al values of booleans / dateTimes: two "
               "different ill-formed literals are `=` (None == None), and an ill-formed one is `!=` to every well-formed one "
               "instead of a type error", "%s:%s" % (hits[0]["file"], hits[0]["line"]))
    else:
        ck.ok("R13.16", "sparql_eq compares values only when both are present")


def library_panic_rule(ck, facts):
    """R13.17: panic audit of the function library, the numeric tower and value comparison (armed after the hunt round)."""
    from tables.sparql_lib_panics import TABLE as LIB
    lib = [f for f in facts.fns.values() if f.crate == "sophia_sparql" and re.search(r"sparql/src/(function|value|expression)", f.file)
           and not re.search(LITERAL_PARSING, f.name)]
    sites = []
    for f in sorted(lib, key=lambda x: x.id):
        sites += panics.sites_of(f)
    panics.classify(facts, sites, LIB)
    for s in sites:
        if s.kind == "validator-call":
            continue
        if s.status in ("auto", "audited", "r8.5"):
            ck.ok("R13.17", s.key, s.reason)
        else:
            ck.bad("R13.17", "R13.17@" + s.key, "panic site in the SPARQL function library / value code is neither guarded nor audited: %s %s "
                   "(%s); the arguments come from the data" % (s.kind, s.what, s.detail), s.loc)
    ck.floor("R13.17", "functions of the function library and value modules", len(lib), 150)


def rounding_arms_rule(ck, facts):
    """R13.13b: CEIL / FLOOR / ROUND on decimals use a *directed* rounding of the decimal itself.  The sibling arms for floats call
    f64::ceil / floor; the decimal arm had been written as `(d +/- 0.5).round(0)` with BigDecimal::round, which rounds half to
    even: CEIL(1.0) = 2, FLOOR(1.0) = 0, ROUND(2.5) = 2."""
    want = {"ceil": {"Ceiling"}, "floor": {"Floor"}, "round": {"Floor", "Ceiling", "HalfUp", "HalfDown", "Up", "Down"}}
    for name, modes in sorted(want.items()):
        fns = facts.find_fns(crate="sophia_sparql", name_re=r"^value::_number::SparqlNumber::%s$" % name)
        if len(fns) != 1:
            ck.bad("R13.13", "R13.13@SparqlNumber::%s#anchor" % name, "anchor-missing (%d)" % len(fns))
            continue
        fn = fns[0]
        sw = [(bi, b["t"]) for bi, b in enumerate(fn.blocks) if b["t"]["t"] == "switch"
              and (b["t"].get("variants") or {}).get("enum", "").endswith("_number::SparqlNumber")]
        if len(sw) != 1:
            ck.bad("R13.13", "R13.13@SparqlNumber::%s#shape" % name, "expected one match on SparqlNumber (found %d)" % len(sw), fn.loc)
            continue
        bi, t = sw[0]
        names = t["variants"]["names"]
        targets = {names[v]: tb for v, tb in t["vals"] if v in names}
        rest = set(names.values()) - set(targets)
        if len(rest) == 1:
            targets[rest.pop()] = t["else"]
        tb = targets.get("Decimal")
        if tb is None:
            ck.bad("R13.13", "R13.13@SparqlNumber::%s#shape" % name, "no Decimal arm", fn.loc)
            continue
        region = fn.reachable(tb, avoid={x for v2, x in targets.items() if v2 != "Decimal"})
        calls = [(fn.blocks[b]["t"]["f"].get("res_name") or fn.blocks[b]["t"]["f"].get("name") or "") for b in region if fn.blocks[b]["t"]["t"] == "call"]
        used = {st[2][1].get("vname") for b in region for st in fn.blocks[b]["s"]
                if st[0] == "=" and st[2][0] == "agg" and str(st[2][1].get("def", "")).endswith("RoundingMode")}
        half_even = any(re.search(r"bigdecimal::BigDecimal::round$", c) for c in calls)
        if half_even or not (used and used <= modes):
            ck.bad("R13.13", "R13.13@SparqlNumber::%s#decimal-rounding" % name, "the Decimal arm of %s %s: it must round the decimal itself with a "
                   "directed mode (%s); `(d +/- 0.5).round(0)` moves decimals that are already integers (CEIL(1.0) = 2, FLOOR(1.0) = 0) "
                   "and ROUND(2.5) = 2" % (name.upper(), "uses BigDecimal::round (half to even)" if half_even else "uses rounding mode(s) %s" % sorted(x for x in used if x),
                                           "/".join(sorted(modes))), fn.loc)
        else:
            ck.ok("R13.13", "SparqlNumber::%s: Decimal arm rounds with RoundingMode::%s" % (name, "/".join(sorted(used))))


def silent_stub_rule(ck, facts):
    """R13.18: built-in functions that are not implemented evaluate to an expression error (FILTER drops the row, COALESCE picks its
    fallback, ASK answers false): the property asks for an explicit not-implemented error of the query."""
    fns = facts.find_fns(crate="sophia_sparql", name_re=r"^function::call_function$")
    if len(fns) != 1:
        ck.bad("R13.18", "R13.18@function::call_function#anchor", "anchor-missing (%d)" % len(fns))
        return
    fn = fns[0]
    stubs = [t for _, t in fn.calls() if call_name_matches(t, r"^function::todo$")]
    # a query can also be rejected as a whole before any expression is evaluated: then each of the three operators that
    # evaluate expressions has a path building NotImplemented
    guarded = 0
    for op in ("filter", "extend", "order_by"):
        for f in facts.find_fns(crate="sophia_sparql", name_re=r"^exec::ExecState::<'a, D>::%s$" % op):
            if any(st[0] == "=" and st[2][0] == "agg" and st[2][1].get("vname") == "NotImplemented" for b in f.blocks for st in b["s"]):
                guarded += 1
    if stubs and guarded == 3:
        ck.ok("R13.18", "call_function keeps %d not-implemented stubs, and filter / extend / order_by each reject a query with "
              "NotImplemented before evaluating (which functions they reject is not decided)" % len(stubs))
    elif stubs:
        ck.bad("R13.18", "R13.18@function::call_function#silent-not-implemented", "%d arms of call_function (REGEX, REPLACE, STRLANG, STRDT, NOW, TZ, "
               "TIMEZONE, UUID, STRUUID, MD5, SHA*, SUBJECT/PREDICATE/OBJECT and every function called by IRI, i.e. the XSD casts) "
               "print a line on stderr and evaluate to an ordinary expression error: FILTER(REGEX(..)) and FILTER(!REGEX(..)) both "
               "return no rows, ASK { .. FILTER(xsd:integer(?o) = 1) } answers false, COALESCE(REPLACE(..), \"x\") returns \"x\" - a "
               "wrong answer instead of the not-implemented error" % len(stubs), "%s:%s" % (stubs[0]["file"], stubs[0]["line"]))
    else:
        ck.ok("R13.18", "call_function: no arm evaluates to the silent not-implemented stub")


def projection_rule(ck, facts):
    """R13.19: Project restricts the *solutions* to the projected variables (a sub-select hides its other variables from the
    enclosing group, and is not pre-bound by variables it does not project)."""
    fns = facts.find_fns(crate="sophia_sparql", name_re=r"^exec::ExecState::<'a, D>::project$")
    if len(fns) != 1:
        ck.bad("R13.19", "R13.19@ExecState::project#anchor", "anchor-missing (%d)" % len(fns))
        return
    fn = fns[0]
    writes_iter = any(st[0] == "=" and len(st[1]) > 1 and str(st[1][-1]).endswith(":iter") for b in fn.blocks for st in b["s"])
    builds = any(st[0] == "=" and st[2][0] == "agg" and str(st[2][1].get("def", "")).endswith("binding::Bindings") for b in fn.blocks for st in b["s"])
    if writes_iter or builds:
        ck.ok("R13.19", "ExecState::project rebuilds the solution stream (restriction to the projected variables)")
        # R13.19b: the inner pattern of a sub-select must not be evaluated under the *whole* incoming binding: variables the
        # sub-select does not project are local to it, an outer binding of the same name must not constrain them
        sel = [t for _, t in fn.calls() if call_name_matches(t, r"^exec::ExecState::<'a, D>::select$")]
        bparam = [i for i in range(1, fn.argc + 1) if (fn.locals[i].get("name") or "") == "binding"]
        if len(sel) != 1 or len(bparam) != 1:
            ck.bad("R13.19", "R13.19@ExecState::project#anchor", "anchor-missing: the evaluation of the inner pattern (%d) / the incoming binding "
                   "(%d)" % (len(sel), len(bparam)), fn.loc)
        else:
            o = fn.origin(sel[0]["args"][-1])
            if o[0] == "param" and o[1] == bparam[0] and not o[2]:
                ck.bad("R13.19", "R13.19@ExecState::project#inner-sees-outer-binding", "project evaluates the inner pattern under the incoming binding as "
                       "it is: a variable that the sub-select does not project is local to it, yet `GRAPH ?g { SELECT ?s { ?s :b ?g } }` "
                       "pre-binds the sub-select's own ?g with the graph name (1 solution instead of 3)",
                       "%s:%s" % (sel[0]["file"], sel[0]["line"]))
            else:
                ck.ok("R13.19", "the inner pattern of a sub-select is not evaluated under the incoming binding as it is")
    else:
        ck.bad("R13.19", "R13.19@ExecState::project#solutions-not-restricted", "project replaces the list of column names only; the solutions keep "
               "every variable of the inner pattern, and the inner pattern is evaluated under the whole outer binding: "
               "`{ {SELECT ?s {?s :p ?o}} FILTER(bound(?o)) }` keeps its rows, BIND(?o AS ?x) after the sub-select binds ?x, and "
               "`GRAPH ?g { SELECT ?s { ?s :b ?g } }` pre-binds the sub-select's local ?g", fn.loc)


def graph_existence_rule(ck, facts):
    """R13.20: GRAPH <g> { P } / GRAPH ?g { P } have no solution for a graph that does not exist (SPARQL 18.6); when P needs no
    triple (the empty group, BIND, FILTER NOT EXISTS) that has to be tested explicitly."""
    fns = facts.find_fns(crate="sophia_sparql", name_re=r"^exec::ExecState::<'a, D>::graph$")
    if len(fns) != 1:
        ck.bad("R13.20", "R13.20@ExecState::graph#anchor", "anchor-missing (%d)" % len(fns))
        return
    fn = fns[0]
    sw = [(bi, b["t"]) for bi, b in enumerate(fn.blocks) if b["t"]["t"] == "switch"
          and (b["t"].get("variants") or {}).get("enum", "").endswith("NamedNodePattern")]
    if len(sw) != 1:
        ck.bad("R13.20", "R13.20@ExecState::graph#shape", "expected one match on NamedNodePattern (found %d)" % len(sw), fn.loc)
        return
    bi, t = sw[0]
    names = t["variants"]["names"]
    targets = {names[v]: tb for v, tb in t["vals"] if v in names}
    rest = set(names.values()) - set(targets)
    if len(rest) == 1:
        targets[rest.pop()] = t["else"]
    tb = targets.get("NamedNode")
    region = fn.reachable(tb, avoid={x for k, x in targets.items() if k != "NamedNode"}) if tb is not None else set()
    tested = False

    def scan(f, blocks, depth):
        nonlocal tested
        for b in blocks:
            tt = f.blocks[b]["t"]
            if tt["t"] == "call":
                if re.search(r"(named_graphs|graph_names|binary_search)$", tt["f"].get("res_name") or tt["f"].get("name") or ""):
                    tested = True
                callee = facts.fns.get(tt["f"].get("res") or "")
                if callee is not None and callee.crate == "sophia_sparql" and depth < 2 and not re.search(r"::select$", callee.name):
                    for c in facts.with_closures(callee):
                        scan(c, range(len(c.blocks)), depth + 1)
            for st in f.blocks[b]["s"]:
                if ":named_graphs" in str(st):
                    tested = True
    scan(fn, region, 0)
    # the empty set of graph names of GRAPH ?g must not fall back to evaluating the pattern once
    fallback = False
    for b2, t2 in fn.calls():
        if call_name_matches(t2, r"BTreeSet::<T, A>::is_empty$|BTreeSet::<T>::is_empty$"):
            bs = bool_switch(fn, fn.blocks[b2]["t"]["to"])
            # ... evaluating the pattern once and returning that very result (the tail call `self.select(inner, &[], binding)`)
            if bs and any(call_name_matches(fn.blocks[x]["t"], r"ExecState::<'a, D>::select$") and fn.blocks[x]["t"]["dest"] == [0]
                          for x in fn.reachable(bs[1], avoid={bs[2]}) if fn.blocks[x]["t"]["t"] == "call"):
                fallback = True
    if tested and not fallback:
        ck.ok("R13.20", "ExecState::graph tests the existence of the named graph")
    else:
        ck.bad("R13.20", "R13.20@ExecState::graph#graph-existence-not-tested", "GRAPH with a constant name evaluates the inner pattern without "
               "testing that the graph exists%s: `ASK { GRAPH <tag:nowhere> {} }` is true, `GRAPH <tag:nowhere> { BIND(1 AS ?x) }` has a "
               "solution, and on a dataset without named graphs `SELECT ?g { GRAPH ?g {} }` returns one row with ?g unbound "
               "(SPARQL 18.6: no solution)" % (", and GRAPH ?g over an empty set of graph names evaluates the pattern once" if fallback else ""), fn.loc)


def base_iri_rule(ck, facts):
    """R13.21: the base IRI of the query reaches the evaluator (IRI()/URI() resolve their argument against it)."""
    fns = [f for f in facts.fns.values() if f.crate == "sophia_sparql" and re.search(r"SparqlWrapper<'.*as sophia_api::sparql::SparqlDataset>::query$|SparqlDataset>::query$", f.name)]
    if len(fns) != 1:
        ck.bad("R13.21", "R13.21@SparqlWrapper::query#anchor", "anchor-missing (%d)" % len(fns))
        return
    fn = fns[0]
    from mirutil import uses_of_local
    refs = [st[1][0] for b in fn.blocks for st in b["s"] if st[0] == "=" and st[2][0] == "ref" and any(str(p).endswith(":base_iri") for p in st[2][2][1:])
            and re.search(r"d\d+:(Select|Ask)", str(st[2][2]))]
    if not refs:
        ck.bad("R13.21", "R13.21@SparqlWrapper::query#anchor", "anchor-missing: the base_iri field of Query::Select / Query::Ask", fn.loc)
        return
    used = [l for l in refs if any(k != "drop" for _, k, _ in uses_of_local(fn, l))]
    if used:
        ck.ok("R13.21", "SparqlWrapper::query hands the query's base IRI on")
    else:
        ck.bad("R13.21", "R13.21@SparqlWrapper::query#base-iri-dropped", "the base IRI of a SELECT / ASK query is bound and never used: IRI(\"o\") / "
               "URI(\"o\") return the relative IRI <o>, which matches no term of the data, while <o> written in the same query was resolved "
               "by the parser; without a BASE a relative argument is not an error either", fn.loc)


def in_disjunction_rule(ck, facts):
    """R13.22: `lhs IN (e1, e2, ..)` is `(lhs = e1) || (lhs = e2) || ..` with the three-valued `||` (SPARQL 1.1, 17.4.1.9): an element
    whose comparison is an error must not end the search, a later equal element makes the whole expression true.  The per-element
    results (true / false / error) therefore cannot be handed to a short-circuiting search whose predicate makes no decision of its
    own (`find(|r| r != &Some(false))`: the first error wins)."""
    fn = find_one(ck, facts, "R13.22", r"expression::ArcExpression::eval$", "ArcExpression::eval")
    if fn is None:
        return
    sw = [(bi, b["t"]) for bi, b in enumerate(fn.blocks) if b["t"]["t"] == "switch"
          and (b["t"].get("variants") or {}).get("enum", "").endswith("expression::ArcExpression")]
    if len(sw) != 1:
        ck.bad("R13.22", "R13.22@eval#switch", "expected one match on ArcExpression in eval (found %d)" % len(sw), fn.loc)
        return
    names = sw[0][1]["variants"]["names"]
    arm = {names[v]: tb for v, tb in sw[0][1]["vals"] if v in names}
    if "In" not in arm:
        ck.bad("R13.22", "R13.22@eval#In-arm", "no arm for In in eval", fn.loc)
        return
    others = set()
    for n2, tb in arm.items():
        if n2 != "In":
            others |= fn.reachable(tb)
    region = fn.reachable(arm["In"]) - others
    # the per-element comparison yields Option<bool> (true / false / error).  A disjunction with SPARQL's error semantics has to tell an
    # error from a `true` somewhere: a `match` / `if let` on that Option (a switch on its discriminant).  An (in)equality with a constant
    # (`res != Some(false)`) lumps the two together, whatever the iteration looks like (`find`, or a loop with `break`).
    units = [fn]
    for b_i in region:
        for st in fn.blocks[b_i]["s"]:
            if st[0] == "=" and st[2][0] == "agg" and st[2][1].get("k") == "closure" and st[2][1].get("def") in facts.fns:
                units += facts.with_closures(facts.fns[st[2][1]["def"]])

    def separates(u, blocks):
        for b_i in blocks:
            t = u.blocks[b_i]["t"]
            if t["t"] != "switch" or (t.get("variants") or {}).get("enum") != "core::option::Option":
                continue
            o = u.origin(t["on"])
            if o[0] == "rvalue" and o[1][0] == "discr" and o[1][1]:
                ty = u.locals[o[1][1][0]]["ty"]
                if re.search(r"Option<bool>$", ty.replace("std::option::", "").replace("core::option::", "")):
                    return True
        return False
    ok = separates(fn, region) or any(separates(u, range(len(u.blocks))) for u in units[1:])
    eqs = [t for b_i, t in fn.calls() if b_i in region and call_name_matches(t, r"cmp::PartialEq(<.*>)?>?::(ne|eq)$")]
    for u in units[1:]:
        eqs += [t for _, t in u.calls() if call_name_matches(t, r"cmp::PartialEq(<.*>)?>?::(ne|eq)$")]
    if not ok:
        at = eqs[0] if eqs else None
        ck.bad("R13.22", "R13.22@eval#In:first-error-ends-disjunction", "the In arm never tells an error from a `true` among the per-element comparisons "
               "(no match on the Option<bool> they return; the only test is an (in)equality with a constant): the first element whose "
               "comparison is not false ends the search, so an error met before the matching element makes the whole IN an error: "
               "`2 IN (1/0, 2)` and `2 IN (<iri>, \"str\", 2.0)` (both true in SPARQL 1.1 17.4.1.9) are errors, FILTER(?o IN (1, \"str\")) keeps "
               "only the rows equal to the first element that is comparable",
               ("%s:%s" % (at["file"], at["line"])) if at else fn.loc)
    else:
        ck.ok("R13.22", "In: the per-element results are matched on (an error is told from a true)")


def triple_function_rule(ck, facts):
    """R13.23: TRIPLE(s, p, o) (and the `<< .. >>` constants the parser turns into it) accepts in subject position every kind the
    pattern matcher accepts there: IRIs, blank nodes and quoted triples (RDF-star)."""
    fns = facts.find_fns(crate="sophia_sparql", name_re=r"^function::triple$")
    if len(fns) != 1:
        ck.bad("R13.23", "R13.23@function::triple#anchor", "anchor-missing (%d)" % len(fns))
        return
    fn = fns[0]
    from mirutil import bool_switch, blocks_with_agg
    nones = {bi for bi, si, dest, ops in blocks_with_agg(fn, "core::option::Option", "None") if dest == [0]}
    somes = {bi for bi, si, dest, ops in blocks_with_agg(fn, "core::option::Option", "Some") if dest == [0]}
    accepted = {}
    for bi, b in enumerate(fn.blocks):
        bs = bool_switch(fn, bi)
        if not bs or bs[0][0] != "call":
            continue
        t = bs[0][1]
        m = re.search(r"Term::(is_iri|is_blank_node|is_triple|is_literal|is_variable)$", t["f"].get("name") or "")
        if not t["args"]:
            continue
        who = [x for x in leaf_calls_params(fn, t["args"][0])]
        if "param:1" not in who:
            continue
        reach = fn.reachable(bs[1], avoid=nones)
        if m:
            accepted[m.group(1)] = accepted.get(m.group(1), False) or bool(reach & somes)
            continue
        # the kind test may live in a private helper (`fn can_be_subject(t) -> bool { t.is_iri() || .. }`): decide the helper for
        # each of the five kinds (termimpls.kind_predicate) and read its true edge
        helper = facts.fns.get(t["f"].get("res") or t["f"].get("def") or "")
        if helper is not None and helper.crate == "sophia_sparql":
            for nm_ in helper_true_predicates(helper):
                accepted[nm_] = accepted.get(nm_, False) or bool(reach & somes)
    want = {"is_iri", "is_blank_node", "is_triple"}
    if not somes or not nones:
        ck.bad("R13.23", "R13.23@function::triple#shape", "function::triple has no Some / None construction to decide", fn.loc)
    elif want <= {k for k, v in accepted.items() if v}:
        ck.ok("R13.23", "TRIPLE(): the subject test lets IRIs, blank nodes and quoted triples through")
    else:
        ck.bad("R13.23", "R13.23@function::triple#subject-kinds", "TRIPLE() accepts only %s as its subject (missing: %s): `<< << :a :b :c >> :p :o >>` "
               "in an expression is an error although the same triple pattern matches, TRIPLE(?s, :p, ?o) with ?s bound to a quoted "
               "triple yields no row" % (sorted(k for k, v in accepted.items() if v), sorted(want - {k for k, v in accepted.items() if v})), fn.loc)


def helper_true_predicates(h):
    """the kind predicates `is_*` of its first parameter whose truth makes the bool helper `h` return true
    (`t.is_iri() || t.is_blank_node() || t.is_triple()`): the call's result is the return value, or its true edge reaches an
    assignment of `true` to the return place without passing one of `false`"""
    from mirutil import bool_switch
    def consts(v):
        out = set()
        for bi, b in enumerate(h.blocks):
            for st in b["s"]:
                if st[0] == "=" and st[1] == [0] and st[2][0] == "use" and st[2][1][0] == "k" and st[2][1][1].get("ty") == "bool" \
                        and st[2][1][1].get("v") == v:
                    out.add(bi)
        return out
    trues, falses = consts("1"), consts("0")
    acc = set()
    for bi, t in h.calls():
        m = re.search(r"Term::(is_iri|is_blank_node|is_triple|is_literal|is_variable)$", t["f"].get("name") or "")
        if not m or not t["args"] or "param:1" not in leaf_calls_params(h, t["args"][0]):
            continue
        if t["dest"] == [0]:
            acc.add(m.group(1))
            continue
        for cand in range(len(h.blocks)):
            bs = bool_switch(h, cand)
            if bs and bs[0][0] == "call" and bs[0][1] is t and (h.reachable(bs[1], avoid=falses) & trues):
                acc.add(m.group(1))
    return acc


def leaf_calls_params(fn, operand):
    from mirutil import leaf_calls
    return [n.split(".")[0] for n in leaf_calls(fn, operand) if n.startswith("param:")]


def ignored_argument_rule(ck, facts):
    """R13.24: no function of the library ignores an argument it is given: a result that does not depend on an argument cannot be
    the SPARQL function of that argument (BNODE(str): the same string must give the same blank node within a solution)."""
    from mirutil import uses_of_local
    import core
    for name, expect in (("pos_ignores_argument", True), ("neg_uses_argument", False)):
        f = core.fixture_fn(name)
        ck.control("R13.24", name, any(not [u for u in uses_of_local(f, i) if u[1] != "drop"] for i in range(1, f.argc + 1)), expect)
    n = 0
    for g in sorted(facts.fns.values(), key=lambda x: x.name):
        if g.crate != "sophia_sparql" or not re.match(r"function::\w+$", g.name) or g.kind != "Fn" or g.argc == 0:
            continue
        n += 1
        unused = [i for i in range(1, g.argc + 1) if not [u for u in uses_of_local(g, i) if u[1] != "drop"]]
        if unused:
            ck.bad("R13.24", "R13.24@%s#ignores-argument" % g.name, "%s never reads its argument %s: BNODE(\"a\") returns a fresh blank node at every "
                   "call, so sameTerm(BNODE(\"a\"), BNODE(\"a\")) is false within one solution (SPARQL 1.1 17.4.2.9 requires the same node)"
                   % (g.name, ", ".join("#%d (%s)" % (i, g.locals[i].get("name") or "?") for i in unused)), g.loc)
    ck.floor("R13.24", "library functions with arguments", n, 33)
    if not any(f_.rule == "R13.24" for f_ in ck.findings):
        ck.ok("R13.24", "every function of the library reads each of its arguments (%d functions)" % n)


def run(ck, facts, tier):
    in_disjunction_rule(ck, facts)
    triple_function_rule(ck, facts)
    ignored_argument_rule(ck, facts)
    facts.require_crates(["sophia_sparql"])
    sibling_arms_rule(ck, facts)
    rounding_arms_rule(ck, facts)
    native_arithmetic_rule(ck, facts)
    error_as_item_rule(ck, facts)
    option_eq_rule(ck, facts)
    library_panic_rule(ck, facts)
    silent_stub_rule(ck, facts)
    projection_rule(ck, facts)
    graph_existence_rule(ck, facts)
    base_iri_rule(ck, facts)
    literal_parsing_rule(ck, facts)
    error_semantics_rule(ck, facts)
    value_class_rule(ck, facts)
    select_rule(ck, facts)
    query_rule(ck, facts)
    filter_rule(ck, facts)
    bindings_rule(ck, facts)
    distinct_rule(ck, facts)
    graph_rule(ck, facts)
    # R13.4 panic audit of the evaluator core
    core_fns = [f for f in facts.fns.values() if f.crate == "sophia_sparql" and re.search(CORE_FILES, f.file)]
    sites = []
    for f in sorted(core_fns, key=lambda x: x.id):
        sites += panics.sites_of(f)
    from tables.sparql_panics import TABLE
    panics.controls(ck, "R13.4")
    panics.classify(facts, sites, TABLE)
    unarmed = 0
    for s in sites:
        if s.kind == "validator-call":
            continue
        if s.status in ("auto", "audited", "r8.5"):
            ck.ok("R13.4", s.key, s.reason)
        elif s.kind == "assert":
            unarmed += 1
        else:
            ck.bad("R13.4", "R13.4@" + s.key, "panic site in the SPARQL evaluator core is neither guarded nor audited: %s %s (%s)" % (s.kind, s.what, s.detail), s.loc)
    lib = [f for f in facts.fns.values() if f.crate == "sophia_sparql" and re.search(r"sparql/src/(function|value|expression)", f.file)]
    libsites = sum(len(panics.sites_of(f)) for f in lib)
    ck.extra["panic_audit"] = dict(core_functions=len(core_fns), core_sites=len(sites), arithmetic_asserts_listed_not_armed=unarmed,
                                   function_library_sites_listed_not_armed=libsites)
    ck.floor("R13.4", "evaluator-core functions", len(core_fns), 100)
    ck.assumptions = ["spargebra parses queries into the algebra it documents", "the function library and numeric tower are not armed "
                      "(value-dependent panics there are listed in the evidence only)"]
    ck.trusted = ["rustc MIR (switch tables with variant names, resolved callees)", "audited table rules/tables/sparql_panics.py"]
