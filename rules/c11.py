"""C11 — graph/dataset views stay coherent with the store: forwarding shape of every adapter method."""
import re
from core import CheckError
from mirutil import (call_name_matches, provenance, bool_switch, edge_dominates, enumerate_paths, comes_from_call,
                     TRANSPARENT, root_local)

LEVEL = "other"
EXPLANATION = (
    "Decides the forwarding clause of C11 for every method of the four view adapters (UnionGraph, PartialUnionGraph, "
    "DatasetGraph, GraphAsDataset), from MIR: (R11.1) each method makes exactly one call into the wrapped store, to the "
    "method named in the audited table, with the s/p/o arguments being the method's own parameters in the same positions "
    "and the graph position filled with `Any` / the stored selector / `[self.g()]`; the result is returned with only "
    "Quad::into_triple / Triple::into_quad (or map_err) applied; mutable views pass their own graph name and return the "
    "store's flag. GraphAsDataset answers for the default graph only: its forwards are dominated by the `g.is_none()` / "
    "`gm.matches(None)` test, and the other edge yields empty / Ok(false) / Err(OnlyDefaultGraph) without touching the "
    "graph. (R11.2) the set of trait methods each adapter overrides is the audited set — a new override of a provided "
    "method (e.g. insert_all, retain_matching) must be audited, since it replaces the default that is built on the guarded "
    "primitives. NOT decided: coherence over histories (follows from R11.1 + C01 only informally).")

ANY = "Any"
# (impl self type regex, trait suffix) -> {method: spec}
# spec: callee regex, args: list of 'pN' (own param N, 1-based incl. self), 'any', 'field:<name>', 'g()' ; guard
ADAPTERS = {
    ("graph::adapter::UnionGraph<T>", "graph::Graph"): {
        "triples": dict(callee=r"Dataset>?::quads$", args=[], post="into_triple"),
        "triples_matching": dict(callee=r"Dataset>?::quads_matching$", args=["p2", "p3", "p4", "any"], post="into_triple"),
        # NB: iris / blank_nodes / literals / quoted_triples / variables must NOT be forwarded to the dataset: the dataset's
        # versions also yield the terms used as graph names, which are not terms of the union graph (the table used to list
        # them as "same"; the hunt round showed `union_graph().iris()` reporting <x:g> for the one quad `_:s <x:p> "o" <x:g>`;
        # repaired in 282c9f2 by removing the overrides, so an override of one of them is now an unaudited override)
        "subjects": "same", "predicates": "same", "objects": "same",
    },
    ("graph::adapter::PartialUnionGraph<D, M>", "graph::Graph"): {
        "triples": dict(callee=r"Dataset>?::quads_matching$", args=["any", "any", "any", "field:m"], post="into_triple"),
        "triples_matching": dict(callee=r"Dataset>?::quads_matching$", args=["p2", "p3", "p4", "field:m"], post="into_triple"),
    },
    ("graph::adapter::DatasetGraph<D, G>", "graph::Graph"): {
        "triples": dict(callee=r"Dataset>?::quads_matching$", args=["any", "any", "any", "[g()]"], post="into_triple"),
        "triples_matching": dict(callee=r"Dataset>?::quads_matching$", args=["p2", "p3", "p4", "[g()]"], post="into_triple"),
    },
    ("graph::adapter::DatasetGraph<D, G>", "graph::MutableGraph"): {
        "insert": dict(callee=r"MutableDataset>?::insert$", args=["p2", "p3", "p4", "gd().0"], post="flag"),
        "remove": dict(callee=r"MutableDataset>?::remove$", args=["p2", "p3", "p4", "gd().0"], post="flag"),
    },
    ("dataset::adapter::GraphAsDataset<T>", "dataset::Dataset"): {
        "quads": dict(callee=r"Graph>?::triples$", args=[], post="into_quad"),
        "quads_matching": dict(callee=r"Graph>?::triples_matching$", args=["p2", "p3", "p4"], post="into_quad", guard="matches(None)"),
        "contains": dict(callee=r"Graph>?::contains$", args=["p2", "p3", "p4"], post="flag", guard="is_none", other="Ok(false)"),
        "subjects": "same", "predicates": "same", "objects": "same", "iris": "same", "blank_nodes": "same",
        "literals": "same", "quoted_triples": "same", "variables": "same",
        "graph_names": dict(callee=None),
    },
    ("dataset::adapter::GraphAsDataset<T>", "dataset::MutableDataset"): {
        "insert": dict(callee=r"MutableGraph>?::insert$", args=["p2", "p3", "p4"], post="flag", guard="is_none", other="Err(OnlyDefaultGraph)"),
        "remove": dict(callee=r"MutableGraph>?::remove$", args=["p2", "p3", "p4"], post="flag", guard="is_none", other="Ok(false)"),
    },
}
STORE_CALL = r"(dataset::Dataset|dataset::MutableDataset|graph::Graph|graph::MutableGraph|prelude::Dataset|prelude::Graph|prelude::MutableGraph|prelude::MutableDataset)>?::\w+$|^(dataset|graph)::(Dataset|MutableDataset|Graph|MutableGraph)::\w+$"


def store_calls(facts, fn):
    out = []
    for f in facts.with_closures(fn):
        for bi, t in f.calls():
            if call_name_matches(t, STORE_CALL):
                out.append((f, bi, t))
    return out


def arg_desc(fn, op):
    """classify an argument of the forwarded call"""
    if op[0] == "k":
        c = op[1]
        if "matcher::Any" in c.get("ty", "") or "Any" == c.get("dbg"):
            return "any"
        return "const"
    chain = provenance(fn, op, transparent=())
    o = chain[-1]
    if o[0] == "call" and call_name_matches(o[1], r"DatasetGraph::<D, G>::gd$"):
        for c in chain:
            if c[0] == "place":
                fs = [p for p in c[1][1:] if p.startswith("f")]
                if fs:
                    return "gd().%s" % fs[0][1]
        return "gd()"
    ty = fn.locals[op[1][0]]["ty"]
    if "matcher::Any" in ty or ty.endswith("::Any"):
        return "any"
    if o[0] == "param":
        fs = [p for p in o[2] if p != "*"]
        if not fs:
            return "p%d" % o[1]
        if o[1] == 1:
            return "field:" + fs[0].split(":", 1)[1]
    if o[0] == "agg" and o[1]["k"] == "array" and len(o[2]) == 1:
        inner = fn.origin(o[2][0])
        if inner[0] == "call" and call_name_matches(inner[1], r"DatasetGraph::<D, G>::g$"):
            return "[g()]"
    if o[0] == "call" and call_name_matches(o[1], r"DatasetGraph::<D, G>::g$"):
        return "g()"
    if o[0] == "place" and o[1]:
        sd = fn.single_def(o[1][0])
        if sd is not None and sd[2][0] == "call" and call_name_matches(sd[2][1], r"DatasetGraph::<D, G>::gd$"):
            return "gd()"
    if o[0] == "agg" and o[1].get("k") == "adt" and not o[2]:
        if "Any" in o[1].get("def", ""):
            return "any"
    return "?(%s)" % o[0]


def check_method(ck, facts, adapter, trait, name, fn, spec):
    key = "R11.1@%s::%s" % (adapter, name)
    calls = store_calls(facts, fn)
    if spec == "same":
        spec = dict(callee=r"::%s$" % name, args=[], post="same")
    if spec.get("callee") is None:
        if calls:
            ck.bad("R11.1", key + "#unexpected-forward", "%s::%s is expected not to consult the wrapped store" % (adapter, name), fn.loc)
        else:
            ck.ok("R11.1", "%s::%s: no store access" % (adapter, name))
        return
    if len(calls) != 1:
        ck.bad("R11.1", key + "#calls", "%s::%s must make exactly one call into the wrapped store, found %s" % (
            adapter, name, [t["f"]["name"].split("::")[-1] for _, _, t in calls]), fn.loc)
        return
    f, bi, t = calls[0]
    if not call_name_matches(t, spec["callee"]):
        ck.bad("R11.1", key + "#callee", "%s::%s forwards to `%s`; the audited target is /%s/" % (adapter, name, t["f"]["name"], spec["callee"]),
               "%s:%s" % (t["file"], t["line"]))
        return
    # receiver: the wrapped store (field of self) — for gd() the &mut D comes out of the tuple
    recv = arg_desc(f, t["args"][0])
    if not (recv.startswith("field:") or recv == "gd().1"):
        ck.bad("R11.1", key + "#receiver", "the forwarded call is not made on the wrapped store (receiver %s)" % recv, fn.loc)
        return
    got = [arg_desc(f, a) for a in t["args"][1:]]
    if got != spec["args"]:
        ck.bad("R11.1", key + "#arguments", "%s::%s passes %s to %s; expected %s (own matchers/terms in the same positions, and the "
               "view's graph selector)" % (adapter, name, got, t["f"]["name"].split("::")[-1], spec["args"]), "%s:%s" % (t["file"], t["line"]))
        return
    # guard
    g = spec.get("guard")
    if g:
        guard_ok = False
        for cand in sorted(f.dominators().get(bi, ())):
            bs = bool_switch(f, cand)
            if not bs or bs[0][0] != "call":
                continue
            gt = bs[0][1]
            if g == "is_none" and call_name_matches(gt, r"Option::<T>::is_none$"):
                a = provenance(f, gt["args"][0], transparent=())[-1]
                if a[0] == "param" and a[1] == 5 and edge_dominates(f, (cand, bs[1]), bi):
                    guard_ok = True
            if g == "is_none" and call_name_matches(gt, r"Option::<T>::is_some$"):
                a = provenance(f, gt["args"][0], transparent=())[-1]
                other = [x for x in f.succs(cand) if x != bs[1]]
                if a[0] == "param" and a[1] == 5 and len(other) == 1 and edge_dominates(f, (cand, other[0]), bi):
                    guard_ok = True
            if g == "matches(None)" and call_name_matches(gt, r"GraphNameMatcher>?::matches$"):
                a = provenance(f, gt["args"][0], transparent=())[-1]
                n = f.origin(gt["args"][1])
                if a[0] == "param" and a[1] == 5 and n[0] == "agg" and n[1].get("vname") == "None" and edge_dominates(f, (cand, bs[1]), bi):
                    guard_ok = True
                    # and the other edge must not reach the store
        if not guard_ok and g == "is_none":
            # the same test spelled `match g { None => forward, Some(_) => .. }`: switch on the discriminant of the parameter
            for cand in sorted(f.dominators().get(bi, ())):
                tt = f.blocks[cand]["t"]
                if tt["t"] != "switch":
                    continue
                o = f.origin(tt["on"])
                if o[0] == "rvalue" and o[1][0] == "discr":
                    src = provenance(f, ["c", o[1][1]], transparent=())[-1]
                    if src[0] == "param" and src[1] == 5 and not [p for p in src[2] if p != "*"]:
                        none_t = dict((v, b) for v, b in tt["vals"]).get("0")
                        if none_t is None and all(v != "0" for v, _ in tt["vals"]):
                            none_t = tt["else"]
                        if none_t is not None and edge_dominates(f, (cand, none_t), bi):
                            guard_ok = True
        if not guard_ok:
            ck.bad("R11.1", key + "#guard", "%s::%s forwards to the wrapped graph without the default-graph test `%s` on its graph argument"
                   % (adapter, name, g), fn.loc)
            return
        # no other decision may bypass the forward: every success path either takes the guard's true edge (and forwards) or
        # takes its false edge
        bools = [b for b in range(len(f.blocks)) if not f.blocks[b].get("cleanup") and bool_switch(f, b) and bool_switch(f, b)[0][0] == "call"]
        others = [b for b in bools if not call_name_matches(bool_switch(f, b)[0][1], r"is_none$|GraphNameMatcher>?::matches$")]
        if others:
            ck.bad("R11.1", key + "#extra-condition", "%s::%s takes decisions other than the default-graph test (%s)" % (
                adapter, name, [bool_switch(f, b)[0][1]["f"]["name"].split("::")[-1] for b in others]), fn.loc)
            return
    # the result goes back to the caller with only the allowed post-processing
    from mirutil import forward_aliases
    cur = t["dest"][0]
    curt = t
    steps = []
    okpost = True
    for _ in range(6):
        als = forward_aliases(f, cur)
        if 0 in als:
            break
        nxt = None
        for cb, ct in f.calls():
            if ct is t:
                continue
            if any(a[0] in ("c", "m") and a[1][0] in als and len(a[1]) == 1 for a in ct["args"]):
                nxt = ct
                break
        if nxt is None:
            from mirutil import is_identity_rewrap
            if is_identity_rewrap(f, curt, err_ctor_ok=True):
                steps.append("match (Ok(v) => Ok(v), Err(e) => Err(wrap(e))): the long form of map_err")
                break
            okpost = False
            steps.append("<lost>")
            break
        nm = nxt["f"]["name"]
        if call_name_matches(nxt, r"iter::Iterator::map$"):
            clo = f.origin(nxt["args"][1])
            conv = None
            if clo[0] == "agg" and clo[1]["k"] == "closure":
                cf = facts.fns.get(clo[1]["def"])
                for _, it in (cf.calls() if cf else []):
                    if call_name_matches(it, r"Result::<T, E>::map$") and it["dest"] == [0]:
                        fi = it["args"][1]
                        if fi[0] == "k" and fi[1].get("kind") == "fn":
                            conv = fi[1]["def"].split("::")[-1]
            elif clo[0] == "const" and clo[1].get("kind") == "fn":
                # a private helper instead of the closure: `fn quad_result_into_triple(r) -> .. { match r { Ok(q) => Ok(q.into_triple()), Err(e) => Err(e) } }`
                hf = facts.fns.get(clo[1].get("def") or "")
                if hf is not None and hf.crate == f.crate:
                    hn = [(it["f"].get("name") or "") for _, it in hf.calls()]
                    convs = [n.split("::")[-1] for n in hn if re.search(r"::(into_triple|into_quad)$", n)]
                    rest = [n for n in hn if not re.search(r"::(into_triple|into_quad)$|Result::<T, E>::map$", n)]
                    mapped = [it for _, it in hf.calls() if call_name_matches(it, r"Result::<T, E>::map$") and it["args"][1][0] == "k"]
                    if not convs and mapped:
                        convs = [mapped[0]["args"][1][1].get("def", "").split("::")[-1]]
                    if len(set(convs)) == 1 and not rest:
                        conv = convs[0]
            steps.append("map(%s)" % conv)
            if conv != spec.get("post"):
                okpost = False
        elif call_name_matches(nxt, r"Box::<T>::new$|Result::<T, E>::map_err$|ops::Try>?::branch$|convert::From::from$"):
            steps.append(nm.split("::")[-1])
        else:
            steps.append(nm.split("::")[-1])
            okpost = False
        cur = nxt["dest"][0]
        curt = nxt
    if spec.get("post") in ("into_triple", "into_quad") and not any(x == "map(%s)" % spec["post"] for x in steps):
        okpost = False
    if not okpost:
        ck.bad("R11.1", key + "#post", "the result of the forwarded call is post-processed by %s; only %s is allowed between the store and "
               "the caller" % (steps, {"into_triple": "map(Quad::into_triple)", "into_quad": "map(Triple::into_quad)", "flag": "map_err",
                                      "same": "nothing"}.get(spec.get("post"), "nothing")), fn.loc)
        return
    ck.ok("R11.1", "%s::%s -> %s(%s)%s%s" % (adapter, name, t["f"]["name"].split("::")[-1], ", ".join(got), " under " + g if g else "",
                                          " then " + "/".join(steps) if steps else ""))


def run(ck, facts, tier):
    facts.require_crates(["sophia_api"])
    n = 0
    for (self_ty, trait), methods in ADAPTERS.items():
        imps = [i for i in facts.impls if i["crate"] == "sophia_api" and i["self_ty"] == self_ty and (i.get("trait") or "").endswith(trait)]
        if len(imps) != 1:
            ck.bad("R11.2", "R11.2@%s as %s#anchor" % (self_ty, trait), "anchor-missing: impl %s for %s (%d)" % (trait, self_ty, len(imps)))
            continue
        imp = imps[0]
        adapter = self_ty.split("::")[-1].split("<")[0]
        overridden = {x["name"]: x["def"] for x in imp["items"] if x["kind"] == "AssocFn"}
        extra = sorted(set(overridden) - set(methods))
        missing = sorted(set(methods) - set(overridden))
        if extra:
            ck.bad("R11.2", "R11.2@%s as %s#unaudited-override:%s" % (adapter, trait.split("::")[-1], ",".join(extra)),
                   "%s overrides %s of %s: not in the audited forwarding table (an override replaces the default built on the guarded "
                   "primitives; it must forward to the same graph only, with the same flag/count)" % (adapter, extra, trait), "%s:%s" % (imp["file"], imp["line"]))
        if missing:
            ck.bad("R11.2", "R11.2@%s as %s#missing:%s" % (adapter, trait.split("::")[-1], ",".join(missing)),
                   "%s no longer overrides %s" % (adapter, missing), "%s:%s" % (imp["file"], imp["line"]))
        if not extra and not missing:
            ck.ok("R11.2", "%s as %s overrides exactly %s" % (adapter, trait.split("::")[-1], sorted(overridden)))
        for name, spec in sorted(methods.items()):
            fn = facts.fns.get(overridden.get(name))
            if fn is None:
                continue
            n += 1
            try:
                check_method(ck, facts, adapter, trait, name, fn, spec)
            except CheckError as e:
                ck.bad("R11.1", "R11.1@%s::%s#shape" % (adapter, name), str(e), fn.loc)
    ck.floor("R11.1", "adapter forwarding methods", n, 25)   # 30 until the five wrong UnionGraph forwards were removed (282c9f2)
    ck.assumptions = ["coherence over mutation histories is not decided; it relies on the wrapped store (C01)"]
    ck.trusted = ["rustc MIR (resolved trait-method callees, argument provenance)"]
    import witness
    witness.apply(ck, "C11")
