"""Reference grammars (checker side), one named production per ABNF/EBNF rule.

Every production is a string in rust-regex syntax *without* anchors; `anch(x)` anchors it.  They are
transcribed from the normative texts (RFC 3987 §2.2 + RFC 3986 for the IP literals, RDF 1.1 Turtle /
N-Triples / SPARQL 1.1 terminals, XSD 1.1 lexical spaces, RFC 5646), literals being case-insensitive where
ABNF says so.  Nothing here is derived from the repository's regexes.
"""

def alt(*xs):
    return "(?:" + "|".join(xs) + ")"

def seq(*xs):
    return "(?:" + "".join(xs) + ")"

def opt(x):
    return "(?:" + x + ")?"

def star(x):
    return "(?:" + x + ")*"

def plus(x):
    return "(?:" + x + ")+"

def rep(x, lo, hi=None):
    if hi is None:
        hi = lo
    return "(?:%s){%d,%d}" % (x, lo, hi)

def anch(x):
    return "^(?:" + x + ")$"

# ------------------------------------------------------------------ RFC 3986 / 3987

ALPHA = "[A-Za-z]"
DIGIT = "[0-9]"
HEXDIG = "[0-9A-Fa-f]"
UCSCHAR = ("[\\x{A0}-\\x{D7FF}\\x{F900}-\\x{FDCF}\\x{FDF0}-\\x{FFEF}"
           "\\x{10000}-\\x{1FFFD}\\x{20000}-\\x{2FFFD}\\x{30000}-\\x{3FFFD}"
           "\\x{40000}-\\x{4FFFD}\\x{50000}-\\x{5FFFD}\\x{60000}-\\x{6FFFD}"
           "\\x{70000}-\\x{7FFFD}\\x{80000}-\\x{8FFFD}\\x{90000}-\\x{9FFFD}"
           "\\x{A0000}-\\x{AFFFD}\\x{B0000}-\\x{BFFFD}\\x{C0000}-\\x{CFFFD}"
           "\\x{D0000}-\\x{DFFFD}\\x{E1000}-\\x{EFFFD}]")
IPRIVATE = "[\\x{E000}-\\x{F8FF}\\x{F0000}-\\x{FFFFD}\\x{100000}-\\x{10FFFD}]"
UNRESERVED = "[A-Za-z0-9\\-._~]"
IUNRESERVED = alt(UNRESERVED, UCSCHAR)
SUB_DELIMS = "[!$&'()*+,;=]"
PCT = seq("%", HEXDIG, HEXDIG)
SCHEME = seq(ALPHA, star("[A-Za-z0-9+\\-.]"))
PORT = star(DIGIT)
DEC_OCTET = alt(DIGIT, "[1-9]" + DIGIT, "1" + DIGIT + DIGIT, "2[0-4]" + DIGIT, "25[0-5]")
IPV4 = seq(DEC_OCTET, "\\.", DEC_OCTET, "\\.", DEC_OCTET, "\\.", DEC_OCTET)
H16 = rep(HEXDIG, 1, 4)
LS32 = alt(seq(H16, ":", H16), IPV4)
H16C = seq(H16, ":")

def _pre(n):  # [ *n( h16 ":" ) h16 ]
    return opt(seq(rep(H16C, 0, n), H16))

IPV6 = alt(
    seq(rep(H16C, 6), LS32),
    seq("::", rep(H16C, 5), LS32),
    seq(opt(H16), "::", rep(H16C, 4), LS32),
    seq(_pre(1), "::", rep(H16C, 3), LS32),
    seq(_pre(2), "::", rep(H16C, 2), LS32),
    seq(_pre(3), "::", H16C, LS32),
    seq(_pre(4), "::", LS32),
    seq(_pre(5), "::", H16),
    seq(_pre(6), "::"),
)
IPVFUTURE = seq("[vV]", plus(HEXDIG), "\\.", plus(alt(UNRESERVED, SUB_DELIMS, ":")))
IP_LITERAL = seq("\\[", alt(IPV6, IPVFUTURE), "\\]")
IREG_NAME = star(alt(IUNRESERVED, PCT, SUB_DELIMS))
IHOST = alt(IP_LITERAL, IPV4, IREG_NAME)
IUSERINFO = star(alt(IUNRESERVED, PCT, SUB_DELIMS, ":"))
IAUTHORITY = seq(opt(seq(IUSERINFO, "@")), IHOST, opt(seq(":", PORT)))
IPCHAR = alt(IUNRESERVED, PCT, SUB_DELIMS, "[:@]")
ISEGMENT = star(IPCHAR)
ISEGMENT_NZ = plus(IPCHAR)
ISEGMENT_NZ_NC = plus(alt(IUNRESERVED, PCT, SUB_DELIMS, "@"))
IPATH_ABEMPTY = star(seq("/", ISEGMENT))
IPATH_ABSOLUTE = seq("/", opt(seq(ISEGMENT_NZ, star(seq("/", ISEGMENT)))))
IPATH_NOSCHEME = seq(ISEGMENT_NZ_NC, star(seq("/", ISEGMENT)))
IPATH_ROOTLESS = seq(ISEGMENT_NZ, star(seq("/", ISEGMENT)))
IPATH_EMPTY = "(?:)"
IQUERY = star(alt(IPCHAR, IPRIVATE, "[/?]"))
IFRAGMENT = star(alt(IPCHAR, "[/?]"))
IHIER_PART = alt(seq("//", IAUTHORITY, IPATH_ABEMPTY), IPATH_ABSOLUTE, IPATH_ROOTLESS, IPATH_EMPTY)
IRI = seq(SCHEME, ":", IHIER_PART, opt(seq("\\?", IQUERY)), opt(seq("\\#", IFRAGMENT)))
IRELATIVE_PART = alt(seq("//", IAUTHORITY, IPATH_ABEMPTY), IPATH_ABSOLUTE, IPATH_NOSCHEME, IPATH_EMPTY)
IRELATIVE_REF = seq(IRELATIVE_PART, opt(seq("\\?", IQUERY)), opt(seq("\\#", IFRAGMENT)))
IRI_REFERENCE = alt(IRI, IRELATIVE_REF)

# context languages: restrict attention to one production at a time (witness diversity for C09)
ANY = "(?s:.)*"
IRI_CONTEXTS = {
    "ipv6":      seq(SCHEME, "://", opt(seq("[^@/?\\#\\[\\]]*", "@")), "\\[[0-9A-Fa-f:.]*\\]", ANY),
    "ipvfuture": seq(SCHEME, "://", "\\[[vV]", ANY),
    "userinfo":  seq(SCHEME, "://", "[^/?\\#]*@", ANY),
    "port":      seq(SCHEME, "://", "[^/?\\#@\\[\\]]*:[^/?\\#@\\[\\]]*", "(?:[/?\\#](?s:.)*)?"),
    "ipv4":      seq(SCHEME, "://", "[0-9.]+", "(?:[:/?\\#](?s:.)*)?"),
    "abs_path":  seq(SCHEME, ":/", "(?:[^/](?s:.)*)?"),
    "dslash_noauth": seq(SCHEME, "://", "(?:[/@:](?s:.)*)?"),
    "rootless":  seq(SCHEME, ":", "[^/?\\#]", "[^?\\#]*"),
    "query":     seq("[^?\\#]*", "\\?", "[^\\#]*"),
    "fragment":  seq("[^\\#]*", "\\#", ANY),
    "pct":       seq(ANY, "%", ANY),
    "nonascii":  seq(ANY, "[^\\x00-\\x7F]", ANY),
}
IRELATIVE_CONTEXTS = {
    "ipv6":      seq("//", opt(seq("[^@/?\\#\\[\\]]*", "@")), "\\[[0-9A-Fa-f:.]*\\]", ANY),
    "ipvfuture": seq("//", "\\[[vV]", ANY),
    "userinfo":  seq("//", "[^/?\\#]*@", ANY),
    "port":      seq("//", "[^/?\\#@\\[\\]]*:[^/?\\#@\\[\\]]*", "(?:[/?\\#](?s:.)*)?"),
    "abs_path":  seq("/", "(?:[^/](?s:.)*)?"),
    "dslash_noauth": seq("//", "(?:[/@:](?s:.)*)?"),
    "noscheme":  seq("[^/?\\#]", "[^?\\#]*"),
    "query":     seq("[^?\\#]*", "\\?", "[^\\#]*"),
    "fragment":  seq("[^\\#]*", "\\#", ANY),
    "pct":       seq(ANY, "%", ANY),
    "nonascii":  seq(ANY, "[^\\x00-\\x7F]", ANY),
}

# ------------------------------------------------------------------ Turtle / N-Triples / SPARQL terminals

PN_CHARS_BASE_SET = ("A-Za-z\\x{00C0}-\\x{00D6}\\x{00D8}-\\x{00F6}\\x{00F8}-\\x{02FF}\\x{0370}-\\x{037D}"
                     "\\x{037F}-\\x{1FFF}\\x{200C}-\\x{200D}\\x{2070}-\\x{218F}\\x{2C00}-\\x{2FEF}"
                     "\\x{3001}-\\x{D7FF}\\x{F900}-\\x{FDCF}\\x{FDF0}-\\x{FFFD}\\x{10000}-\\x{EFFFF}")
PN_CHARS_BASE = "[" + PN_CHARS_BASE_SET + "]"
PN_CHARS_U = "[" + PN_CHARS_BASE_SET + "_]"
PN_CHARS_U_NT = "[" + PN_CHARS_BASE_SET + "_:]"          # N-Triples 1.1: PN_CHARS_U includes ':'
PN_CHARS_EXTRA = "\\-0-9\\x{00B7}\\x{0300}-\\x{036F}\\x{203F}-\\x{2040}"
PN_CHARS = "[" + PN_CHARS_BASE_SET + "_" + PN_CHARS_EXTRA + "]"
PN_CHARS_NT = "[" + PN_CHARS_BASE_SET + "_:" + PN_CHARS_EXTRA + "]"
PN_PREFIX = seq(PN_CHARS_BASE, opt(seq(star(alt(PN_CHARS, "\\.")), PN_CHARS)))
PERCENT = seq("%", HEXDIG, HEXDIG)
PN_LOCAL_ESC = "\\\\[_~.\\-!$&'()*+,;=/?\\#@%]"
PLX = alt(PERCENT, PN_LOCAL_ESC)
PN_LOCAL = seq(alt(PN_CHARS_U, ":", "[0-9]", PLX),
               opt(seq(star(alt(PN_CHARS, "\\.", ":", PLX)), alt(PN_CHARS, ":", PLX))))
# a local name that contains no backslash escape denotes exactly its own characters
PN_LOCAL_NOESC = seq(alt(PN_CHARS_U, ":", "[0-9]", PERCENT),
                     opt(seq(star(alt(PN_CHARS, "\\.", ":", PERCENT)), alt(PN_CHARS, ":", PERCENT))))
# label without the leading "_:"
BLANK_NODE_LABEL_TTL = seq(alt(PN_CHARS_U, "[0-9]"), opt(seq(star(alt(PN_CHARS, "\\.")), PN_CHARS)))
BLANK_NODE_LABEL_NT = seq(alt(PN_CHARS_U_NT, "[0-9]"), opt(seq(star(alt(PN_CHARS_NT, "\\.")), PN_CHARS_NT)))
# what the back-ends certainly deliver (see DESIGN C08 L8.1): the whole W3C production.  Until the second hunts this was the narrower
# FIRST (PN_CHARS | '.' PN_CHARS)* ("what a tokenizer that stops at a '.' not followed by a name character completes"), which was a
# transcription of the repository's own regex, defect included: rio_xml (rdf:nodeID is an NCName) and spargebra deliver `a..b`.
MUST_LABEL = BLANK_NODE_LABEL_TTL
LANGTAG_TTL = seq("[a-zA-Z]+", star(seq("-", "[a-zA-Z0-9]+")))      # without the leading '@'
VARNAME = seq(alt(PN_CHARS_U, "[0-9]"),
              star(alt(PN_CHARS_U, "[0-9\\x{00B7}\\x{0300}-\\x{036F}\\x{203F}-\\x{2040}]")))
IRIREF_BODY = star("[^\\x00-\\x20<>\"{}|^`\\\\]")   # raw characters only (the writers never emit UCHAR)
TTL_INTEGER = "[+-]?[0-9]+"
TTL_DECIMAL = "[+-]?[0-9]*\\.[0-9]+"
TTL_EXPONENT = "[eE][+-]?[0-9]+"
TTL_DOUBLE = seq("[+-]?", alt(seq("[0-9]+\\.[0-9]*", TTL_EXPONENT), seq("\\.[0-9]+", TTL_EXPONENT),
                              seq("[0-9]+", TTL_EXPONENT)))
TTL_BOOLEAN = alt("true", "false")

# ------------------------------------------------------------------ XSD 1.1 lexical spaces

XSD_INTEGER = "[\\-+]?[0-9]+"
XSD_DECIMAL = seq("[+\\-]?", alt("[0-9]+(?:\\.[0-9]*)?", "\\.[0-9]+"))
XSD_DOUBLE = alt(seq("[+\\-]?", alt("[0-9]+(?:\\.[0-9]*)?", "\\.[0-9]+"), opt("[Ee][+\\-]?[0-9]+")),
                 "[+\\-]?INF", "NaN")
XSD_BOOLEAN = alt("true", "false", "0", "1")

# ------------------------------------------------------------------ RFC 5646 langtag (well-formed)

ALNUM = "[A-Za-z0-9]"
_EXTLANG = seq(rep(ALPHA, 3), rep(seq("-", rep(ALPHA, 3)), 0, 2))
_LANGUAGE = alt(seq(rep(ALPHA, 2, 3), opt(seq("-", _EXTLANG))), rep(ALPHA, 4), rep(ALPHA, 5, 8))
_SCRIPT = rep(ALPHA, 4)
_REGION = alt(rep(ALPHA, 2), rep(DIGIT, 3))
_VARIANT = alt(rep(ALNUM, 5, 8), seq(DIGIT, rep(ALNUM, 3)))
_SINGLETON = "[0-9A-WY-Za-wy-z]"
_EXTENSION = seq(_SINGLETON, plus(seq("-", rep(ALNUM, 2, 8))))
_PRIVATEUSE = seq("[xX]", plus(seq("-", rep(ALNUM, 1, 8))))
RFC5646_LANGTAG = seq(_LANGUAGE, opt(seq("-", _SCRIPT)), opt(seq("-", _REGION)), star(seq("-", _VARIANT)),
                      star(seq("-", _EXTENSION)), opt(seq("-", _PRIVATEUSE)))
_GRANDFATHERED = "(?i-u:en-GB-oed|i-ami|i-bnn|i-default|i-enochian|i-hak|i-klingon|i-lux|i-mingo|i-navajo|i-pwn|i-tao|i-tay|i-tsu|sgn-BE-FR|sgn-BE-NL|sgn-CH-DE|art-lojban|cel-gaulish|no-bok|no-nyn|zh-guoyu|zh-hakka|zh-min|zh-min-nan|zh-xiang)"
RFC5646 = alt(RFC5646_LANGTAG, _PRIVATEUSE, _GRANDFATHERED)

# ------------------------------------------------------------------ back-end token models

# rdf-types 0.x `BlankId::new` / `blankid::check` (json-ld blank node identifiers), suffix after "_:"
#   first: [0-9] | PN_CHARS_U | ':'      rest: (PN_CHARS | ':' | '.')* not ending in '.'
RDF_TYPES_BLANKID_SUFFIX = None  # filled by rules/c08.py from a transcription pinned to the crate hash

# Display of Rust integers
RUST_INT_DISPLAY = "-?[0-9]+"
