"""C20 — native Rust values <-> typed literals: construction tables and conversion whitelists."""
import re
import grammars as G
from core import Relang, CheckError, Finding
from mirutil import (call_name_matches, provenance, bool_switch, edge_dominates, comes_from_call, fmt_templates,
                     const_strs, TRANSPARENT)

LEVEL = "other"
EXPLANATION = (
    "Decides the construction-table clauses of C20 from the MIR of sophia_api::term::_native_literal. "
    "(R20.1) per native Term impl: the datatype constant is the one the property names (read through the lazy static's "
    "initialiser); bool yields only the constants true/false; integers and finite doubles are rendered with the plain "
    "`{}` Display template, and the std Display languages (-?[0-9]+ for integers) are included in the XSD lexical "
    "spaces (DFA inclusion); Display of an f64 is reachable only on the not-infinite edge of `is_infinite()` and the "
    "infinite branch yields only the constants INF / -INF (NaN's Display is `NaN`, a legal lexical form). "
    "(R20.2) per TryFromTerm impl: `str::parse` of the lexical form is reachable only through a true edge of a datatype "
    "equality with an xsd constant from the table of types whose value space embeds in the target, the non-literal and "
    "wrong-datatype paths parse a constant that is not a number (hence return Err), and `datatype().unwrap()` is only "
    "evaluated on the literal branch. NOT decided: decimal<->binary exactness of f64 (std's Display/FromStr), values of "
    "padded or out-of-range forms (std's FromStr).")

NATIVE_DATATYPE = {
    "f64": "sophia_api::ns::xsd::double",
    "i32": "sophia_api::ns::xsd::integer",
    "isize": "sophia_api::ns::xsd::integer",
    "usize": "sophia_api::ns::xsd::integer",
    "bool": "sophia_api::ns::xsd::boolean",
    "str": "sophia_api::ns::xsd::string",
}
INTS = {"integer", "long", "int", "short", "byte", "unsignedLong", "unsignedInt", "unsignedShort", "unsignedByte",
        "nonNegativeInteger", "nonPositiveInteger", "negativeInteger", "positiveInteger"}
INF_ = float("inf")
XSD_RANGE = {"integer": (-INF_, INF_), "long": (-2**63, 2**63 - 1), "int": (-2**31, 2**31 - 1), "short": (-2**15, 2**15 - 1), "byte": (-128, 127),
             "unsignedLong": (0, 2**64 - 1), "unsignedInt": (0, 2**32 - 1), "unsignedShort": (0, 2**16 - 1), "unsignedByte": (0, 255),
             "nonNegativeInteger": (0, INF_), "nonPositiveInteger": (-INF_, 0), "negativeInteger": (-INF_, -1), "positiveInteger": (1, INF_)}
TARGET_RANGE = {"i32": (-2**31, 2**31 - 1), "isize": (-2**63, 2**63 - 1), "usize": (0, 2**64 - 1), "i64": (-2**63, 2**63 - 1),
                "u64": (0, 2**64 - 1), "i16": (-2**15, 2**15 - 1), "u32": (0, 2**32 - 1)}
# per target: datatypes whose lexical form must be parsed as a *narrower* Rust type first (and then widened)
PARSE_AS = {"f64": {"float": "f32"}}
WHITELIST = {
    # target -> xsd types whose value space consists of values the target's FromStr denotes identically
    "f64": {"double", "float", "decimal"} | INTS,
    "i32": INTS, "isize": INTS, "usize": INTS, "i64": INTS, "u64": INTS, "i16": INTS, "u32": INTS,
    "bool": {"boolean"},
    "String": {"string"}, "std::string::String": {"string"},
}


def impls_for(facts, trait_suffix):
    out = {}
    for i in facts.impls:
        if i["crate"] == "sophia_api" and (i.get("trait") or "").endswith(trait_suffix) and i["file"].endswith("_native_literal.rs"):
            out[i["self_ty"]] = i
    return out


def static_behind_lazy(facts, fn, operand):
    """for `&XSD_X` (lazy_static) return the xsd statics its initialiser reads"""
    for o in provenance(fn, operand, transparent=TRANSPARENT + (r"MownStr::<'a>::from_ref$", r"::from_ref$", r"IriRef::<T>::new_unchecked$")):
        if o[0] == "call" and call_name_matches(o[1], r"ops::Deref>?::deref$"):
            res = o[1]["f"].get("res") or ""
            init = facts.fns.get(res + "::__static_ref_initialize")
            if init is not None:
                out = set()
                for b in init.blocks:
                    for s in b["s"]:
                        if s[0] == "=" and s[2][0] == "use" and s[2][1][0] == "k" and s[2][1][1].get("kind") == "static":
                            out.add(s[2][1][1]["def"])
                return out
    return None


def sparql_nonfinite_rule(ck, facts):
    """R20.3: values computed by the SPARQL engine are turned into literals by SparqlValue::lexical_form; floats and doubles are
    formatted with `{:e}` (LowerExp), which prints infinities as `inf` / `-inf` - not lexical forms of xsd:float / xsd:double
    (INF / -INF), and not term-equal to f64::INFINITY used as a term.  Every LowerExp formatting of a float must be on the
    not-infinite edge of an is_infinite / is_finite test."""
    if "sophia_sparql" not in facts.crates:
        ck.ok("R20.3", "sophia_sparql not in this build", nontrivial=False)
        return
    fns = facts.find_fns(crate="sophia_sparql", name_re=r"^value::SparqlValue::lexical_form$")
    if len(fns) != 1:
        ck.bad("R20.3", "R20.3@SparqlValue::lexical_form#anchor", "anchor-missing (%d)" % len(fns))
        return
    fn = fns[0]
    exps = [(bi, t) for bi, t in fn.calls() if call_name_matches(t, r"fmt::rt::Argument::<'_>::new_lower_exp$|new_upper_exp$|new_display$")
            and re.search(r"&f(32|64)\b", fn.locals[t["args"][0][1][0]]["ty"] if t["args"][0][0] != "k" else "")]
    if not exps:
        ck.bad("R20.3", "R20.3@SparqlValue::lexical_form#anchor", "anchor-missing: the formatting of floats / doubles", fn.loc)
        return
    guards = []
    for bi, t in fn.calls():
        if call_name_matches(t, r"is_infinite$|is_finite$"):
            for cand in sorted(fn.reachable(t["to"])):
                bs = bool_switch(fn, cand)
                if bs and bs[0][0] == "call" and bs[0][1] is t:
                    finite_edge = bs[2] if call_name_matches(t, r"is_infinite$") else bs[1]
                    guards.append((cand, finite_edge))
                    break
    unguarded = [t for bi, t in exps if not any(edge_dominates(fn, (g, e), bi) for g, e in guards)]
    d2s = facts.find_fns(crate="sophia_sparql", name_re=r"^value::dec2string$")
    if len(d2s) == 1:
        disp = [t for _, t in d2s[0].calls() if call_name_matches(t, r"string::ToString>?::to_string$") and t["args"] and t["args"][0][0] != "k"
                and "BigDecimal" in d2s[0].locals[t["args"][0][1][0]]["ty"]]
        if disp:
            ck.bad("R20.3", "R20.3@dec2string#scientific-notation", "computed decimals are written with BigDecimal's Display, which switches to "
                   "scientific notation for small values: BIND(1/10000000 AS ?x) gives \"1E-7\"^^xsd:decimal, not a lexical form of "
                   "xsd:decimal", "%s:%s" % (disp[0]["file"], disp[0]["line"]))
        else:
            ck.ok("R20.3", "dec2string does not use BigDecimal's Display (plain notation)")
    else:
        ck.bad("R20.3", "R20.3@dec2string#anchor", "anchor-missing (%d)" % len(d2s))
    if unguarded:
        ck.bad("R20.3", "R20.3@SparqlValue::lexical_form#non-finite", "floats / doubles computed by the engine are formatted with `{:e}` on paths "
               "with no is_infinite / is_finite test: `SELECT (1e308*10 AS ?x) {}` and `1/0e0` return \"inf\"^^xsd:double, an ill-typed "
               "literal that is not term-equal to f64::INFINITY as a term (\"INF\")", "%s:%s" % (unguarded[0]["file"], unguarded[0]["line"]))
    else:
        ck.ok("R20.3", "SparqlValue::lexical_form formats floats / doubles only on the finite edge of a test")


def run(ck, facts, tier):
    facts.require_crates(["sophia_api", "sophia_sparql"])
    sparql_nonfinite_rule(ck, facts)
    terms = impls_for(facts, "term::Term")
    tries = impls_for(facts, "term::TryFromTerm")
    ck.floor("R20.1", "native Term impls", len([t for t in terms if t in NATIVE_DATATYPE]), 6)
    ck.floor("R20.2", "native TryFromTerm impls", len(tries), 4)
    rl = Relang()
    rl.lang("XSD_INTEGER", G.anch(G.XSD_INTEGER))
    rl.lang("XSD_DOUBLE", G.anch(G.XSD_DOUBLE))
    rl.lang("XSD_BOOLEAN", G.anch(G.XSD_BOOLEAN))
    rl.lang("RUST_INT_DISPLAY", G.anch(G.RUST_INT_DISPLAY))
    rl.subset("L20:Display(int)<=xsd:integer", "RUST_INT_DISPLAY", "XSD_INTEGER")
    for ty, imp in sorted(terms.items()):
        if ty not in NATIVE_DATATYPE:
            ck.bad("R20.1", "R20.1@%s#unknown-native" % ty, "native Term impl for %s is not in the audited table" % ty,
                   "%s:%s" % (imp["file"], imp["line"]))
            continue
        items = {it["name"]: facts.fns.get(it["def"]) for it in imp["items"]}
        # datatype
        dt = items.get("datatype")
        if dt is None:
            ck.bad("R20.1", "R20.1@%s#datatype-missing" % ty, "no datatype() in impl Term for %s" % ty)
        else:
            found = None
            for b in dt.blocks:
                for s in b["s"]:
                    if s[0] == "=" and s[2][0] == "agg" and s[2][1].get("vname") == "Some":
                        found = static_behind_lazy(facts, dt, s[2][2][0])
            if found == {NATIVE_DATATYPE[ty]}:
                ck.ok("R20.1", "%s -> %s" % (ty, NATIVE_DATATYPE[ty].split("::")[-1]))
            else:
                ck.bad("R20.1", "R20.1@%s#datatype" % ty, "datatype of %s is %s, expected %s" % (
                    ty, sorted(found) if found else found, NATIVE_DATATYPE[ty]), dt.loc)
        lt = items.get("language_tag")
        if lt is not None:
            nones = [1 for b in lt.blocks for s in b["s"] if s[0] == "=" and s[1] == [0] and s[2][0] == "agg"
                     and s[2][1].get("vname") == "None"]
            if not nones or any(True for _ in lt.calls()):
                ck.bad("R20.1", "R20.1@%s#language-tag" % ty, "native literal %s must have no language tag" % ty, lt.loc)
        lf = items.get("lexical_form")
        if lf is None:
            ck.bad("R20.1", "R20.1@%s#lexical-missing" % ty, "no lexical_form() in impl Term for %s" % ty)
            continue
        tpls = list(fmt_templates(lf))
        strs = sorted({v for _, v in const_strs(lf) if isinstance(v, str)})
        if ty == "bool":
            lits = [v for v in strs if not v.startswith("\x01") and "\xc0" not in v]
            if set(lits) == {"true", "false"} and not tpls:
                ck.ok("R20.1", "bool lexical forms = {true,false}")
            else:
                ck.bad("R20.1", "R20.1@bool#lexical", "bool yields lexical forms %r, expected exactly true/false" % lits, lf.loc)
        elif ty == "str":
            p = None
            for b in lf.blocks:
                for s in b["s"]:
                    if s[0] == "=" and s[2][0] == "agg" and s[2][1].get("vname") == "Some":
                        p = provenance(lf, s[2][2][0], transparent=TRANSPARENT + (r"MownStr<'a> as std::convert::From<&'a str>>::from$", r"convert::From<.*>>::from$"))[-1]
            if p and p[0] == "param" and p[1] == 1 and not tpls:
                ck.ok("R20.1", "str lexical form = the string itself")
            else:
                ck.bad("R20.1", "R20.1@str#lexical", "lexical form of str is not the string itself", lf.loc)
        else:
            shapes = ["".join(x[1] if x[0] == "lit" else ("{:spec}" if len(x) > 2 and x[2] else "{}") for x in t) if t is not None else None
                      for _, _, t in tpls]
            # which formatting traits are used for the arguments (Display only: LowerExp / UpperExp / Debug print another language)
            fmt_ctors = sorted({t2["f"]["name"].split("::")[-1] for _, t2 in lf.calls()
                                if call_name_matches(t2, r"fmt::rt::Argument::<'_>::new_\w+$")})
            if not shapes or any(s != "{}" for s in shapes) or fmt_ctors not in ([], ["new_display"]):
                ck.bad("R20.1", "R20.1@%s#template" % ty, "lexical form of %s is not the plain `{}` Display rendering (templates %r, "
                       "formatting traits %r): a precision or an exponent format prints another numeral, possibly with fewer digits than "
                       "the value needs" % (ty, shapes, fmt_ctors), lf.loc)
                continue
            ck.ok("R20.1", "%s rendered with `{}` (std Display)" % ty)
            if ty == "f64":
                guard = None
                for bi, t in lf.calls():
                    if call_name_matches(t, r"f64::is_infinite$|f64>::is_infinite$|num::<impl f64>::is_infinite$"):
                        for cand in sorted(lf.reachable(t["to"])):
                            bs = bool_switch(lf, cand)
                            if bs and bs[0][0] == "call" and bs[0][1] is t:
                                guard = (cand, bs[1], bs[2])
                                break
                if guard is None:
                    fin = None
                    for bi, t in lf.calls():
                        if call_name_matches(t, r"is_finite$"):
                            for cand in sorted(lf.reachable(t["to"])):
                                bs = bool_switch(lf, cand)
                                if bs and bs[0][0] == "call" and bs[0][1] is t:
                                    fin = (cand, bs[2], bs[1])   # (switch, nonfinite target, finite target)
                                    break
                    guard = fin
                if guard is None:
                    ck.bad("R20.1", "R20.1@f64#non-finite", "f64 is rendered with Display on all paths: infinities give "
                           "`inf`/`-inf`, which are not xsd:double lexical forms (INF/-INF)", lf.loc)
                else:
                    sw, inf_t, fin_t = guard
                    okd = all(edge_dominates(lf, (sw, fin_t), tb) for tb, _, _ in tpls)
                    consts = sorted({v for bi, v in const_strs(lf) if isinstance(v, str) and bi in lf.reachable(inf_t)
                                     and bi not in lf.reachable(fin_t) and re.match(r"^[-+A-Za-z]+$", v)})
                    if okd and consts and set(consts) <= {"INF", "-INF", "+INF", "NaN"}:
                        ck.ok("R20.1", "f64: Display only for non-infinite values; infinite branch yields %s" % consts)
                    else:
                        ck.bad("R20.1", "R20.1@f64#non-finite", "f64 non-finite handling not recognised (display guarded=%s, "
                               "constants=%r)" % (okd, consts), lf.loc)
    # conversions
    for ty, imp in sorted(tries.items()):
        fn = None
        for it in imp["items"]:
            if it["name"] == "try_from_term":
                fn = facts.fns.get(it["def"])
        if fn is None:
            continue
        key = "R20.2@%s" % ty
        allowed = WHITELIST.get(ty)
        if allowed is None:
            ck.bad("R20.2", key + "#unknown-target", "TryFromTerm for %s is not in the audited table" % ty, fn.loc)
            continue
        tests = []
        for cand in range(len(fn.blocks)):
            bs = bool_switch(fn, cand)
            if not bs or bs[0][0] != "call" or not call_name_matches(bs[0][1], r"term::Term::eq$|Term>::eq$|cmp::PartialEq.*::eq$"):
                continue
            ct = bs[0][1]
            st = None
            dtarg = None
            for a in ct["args"]:
                last = provenance(fn, a)[-1]
                if last[0] == "const" and last[1].get("kind") == "static":
                    st = last[1]["def"]
                elif comes_from_call(fn, a, r"Term::datatype$|Term>::datatype$"):
                    dtarg = a
            if st and dtarg is not None:
                tests.append((cand, bs[1], st))
        if not tests:
            # the whitelist as data: `[xsd::a, xsd::b, ..].iter().any(|c| Term::eq(&term.datatype().unwrap(), *c))`
            for cand in range(len(fn.blocks)):
                bs = bool_switch(fn, cand)
                if not bs or bs[0][0] != "call" or not call_name_matches(bs[0][1], r"iter::Iterator>?::any$"):
                    continue
                anyt = bs[0][1]
                clo = fn.origin(anyt["args"][1]) if len(anyt["args"]) > 1 else ("?",)
                cf = facts.fns.get(clo[1]["def"]) if clo[0] == "agg" and clo[1].get("k") == "closure" else None
                if cf is None or not any(call_name_matches(ct, r"term::Term::eq$|Term>::eq$|cmp::PartialEq.*::eq$")
                                         and any(comes_from_call(cf, a, r"Term::datatype$|Term>::datatype$") for a in ct["args"]) for _, ct in cf.calls()):
                    continue
                statics = []
                for b in fn.blocks:
                    for st_ in b["s"]:
                        if st_[0] == "=" and st_[2][0] == "agg" and st_[2][1].get("k") == "array":
                            for op in st_[2][2]:
                                last = provenance(fn, op)[-1]
                                if last[0] == "const" and last[1].get("kind") == "static":
                                    statics.append(last[1]["def"])
                for sdef in statics:
                    tests.append((cand, bs[1], sdef))
        if not tests:
            # the whitelist in a private helper: `if has_usize_compatible_datatype(term) { lex.parse() }` — the statics compared with the
            # term's datatype inside the helper are tested on the helper's true edge
            for cand in range(len(fn.blocks)):
                bs = bool_switch(fn, cand)
                if not bs or bs[0][0] != "call":
                    continue
                helper = facts.fns.get(bs[0][1]["f"].get("res") or bs[0][1]["f"].get("def") or "")
                if helper is None or helper.crate != fn.crate or helper is fn:
                    continue
                for u in facts.with_closures(helper):
                    for _, ct in u.calls():
                        if call_name_matches(ct, r"term::Term::eq$|Term>::eq$|cmp::PartialEq.*::eq$") and \
                                any(comes_from_call(u, a, r"Term::datatype$|Term>::datatype$") for a in ct["args"]):
                            for a in ct["args"]:
                                last = provenance(u, a)[-1]
                                if last[0] == "const" and last[1].get("kind") == "static":
                                    tests.append((cand, bs[1], last[1]["def"]))
        names = {s.split("::")[-1] for _, _, s in tests}
        for _, ct in fn.calls():
            if call_name_matches(ct, r"term::Term::eq$|Term>::eq$|cmp::PartialEq.*::eq$") and \
                    any(comes_from_call(fn, a, r"Term::datatype$|Term>::datatype$") for a in ct["args"]):
                for a in ct["args"]:
                    last = provenance(fn, a)[-1]
                    if last[0] == "const" and last[1].get("kind") == "static":
                        names.add(last[1]["def"].split("::")[-1])
        # the digits a target type can hold may lie outside the value space of an accepted datatype: then `parse::<T>` succeeds
        # on an ill-typed literal ("-5"^^xsd:nonNegativeInteger -> Ok(-5)), unless the bounds of the datatype are tested
        if ty in TARGET_RANGE:
            lo, hi = TARGET_RANGE[ty]
            loose = sorted(d for d in names if d in XSD_RANGE and not (XSD_RANGE[d][0] <= lo and hi <= XSD_RANGE[d][1]))
            units = facts.with_closures(fn)
            bounded = any(st_[0] == "=" and st_[2][0] == "bin" and st_[2][1] in ("Lt", "Le", "Gt", "Ge") for u in units for b_ in u.blocks for st_ in b_["s"]) \
                or any(re.search(r"bound|range|check", (t_["f"].get("name") or "").split("::")[-1]) for u in units for _, t_ in u.calls())
            if loose and not bounded:
                ck.bad("R20.2", key + "#range-unchecked", "the conversion to %s accepts %s and parses the lexical form as %s without testing the bounds of "
                       "the datatype: an ill-typed literal whose digits are outside the datatype's value space converts successfully "
                       "(\"-5\"^^xsd:nonNegativeInteger -> Ok(-5), \"70000\"^^xsd:short -> Ok(70000), \"0\"^^xsd:positiveInteger -> Ok(0))" % (ty, loose, ty), fn.loc)
            elif loose:
                ck.ok("R20.2", "%s: bounds tested for %s" % (ty, loose))
        if ty == "f64":
            units = facts.with_closures(fn)
            # the examination has to *decide* whether the form is parsed: every `parse` of the function is dominated by a boolean
            # decision computed by a recogniser of the lexical form (a look at the string after the fact, e.g. to normalise a zero,
            # examines nothing)
            recog = r"Regex::is_match$|::all$|::any$|is_ascii_digit$|::contains$|::find$|::starts_with$|::ends_with$|::strip_(pre|suf)fix$|::matches$"
            f_parses = [bi for bi, t_ in fn.calls() if call_name_matches(t_, r"str>::parse$")]
            doms = fn.dominators()

            def decided(pb):
                for cand in doms.get(pb, ()):
                    bs_ = bool_switch(fn, cand)
                    if bs_ and bs_[0][0] == "call" and re.search(recog, bs_[0][1]["f"].get("name") or ""):
                        return True
                return False
            prevalid = bool(f_parses) and all(decided(pb) for pb in f_parses)
            if not prevalid:
                ck.bad("R20.2", key + "#lexical-space-unchecked", "the conversion to f64 hands the lexical form to Rust's float parser whatever the datatype: "
                       "`inf`, `Infinity`, `nan`, `-NaN` (not XSD forms) convert for xsd:double / xsd:float, `NaN`, `INF` and `1e3` convert for "
                       "xsd:decimal, and a well-typed decimal of 400 digits converts to inf", fn.loc)
            else:
                ck.ok("R20.2", "f64: the lexical form is examined before it is parsed")
        if ty == "f64":
            # R20.4: xsd:decimal has a single zero; Rust's float grammar (the lexical mapping of xsd:double) gives "-0" the sign bit.
            # The decimal branch must not share its parse with the double branch, and must compare the result with zero.
            by_dt = {}
            for cand, tgt, sdef in tests:
                by_dt.setdefault(sdef.split("::")[-1], set()).update(
                    bi for bi, t_ in fn.calls() if call_name_matches(t_, r"str>::parse$") and bi in fn.reachable(tgt))
            if "decimal" in by_dt and "double" in by_dt:
                units = facts.with_closures(fn)

                def zero_cmp(u):
                    for b_ in u.blocks:
                        for st_ in b_["s"]:
                            if st_[0] == "=" and st_[2][0] == "bin" and st_[2][1] in ("Eq", "Ne"):
                                for op in st_[2][2:4]:
                                    if op[0] == "k" and op[1].get("kind") == "float" and float(op[1].get("v", "1") or 1) == 0.0:
                                        return True
                                    if op[0] == "k" and re.match(r"^-?0(\.0*)?(_?f64)?$", str(op[1].get("dbg", ""))):
                                        return True
                    return False
                shared = by_dt["decimal"] & by_dt["double"]
                if shared or not any(zero_cmp(u) for u in units):
                    ck.bad("R20.4", "R20.4@f64#decimal-zero-sign", "the conversion to f64 parses xsd:decimal with the lexical mapping of xsd:double (%s): "
                           "\"-0\", \"-0.0\", \"-.0\" typed xsd:decimal denote the single zero of the decimal value space but convert to the "
                           "negative zero (sign bit set, 1/x = -inf), so \"0.0\" and \"-0.0\" give two different native values"
                           % ("the two branches share one parse" if shared else "no comparison of the result with zero"), fn.loc)
                else:
                    ck.ok("R20.4", "f64: xsd:decimal has its own parse and normalises zero")
            else:
                ck.ok("R20.4", "f64: xsd:decimal and xsd:double are not both accepted (nothing to decide)", nontrivial=False)
        extra = names - allowed
        if extra:
            ck.bad("R20.2", key + "#whitelist", "%s accepts datatypes %s whose values do not embed in %s" % (ty, sorted(extra), ty), fn.loc)
        else:
            ck.ok("R20.2", "%s accepts %s" % (ty, sorted(names)))
        if not tests:
            ck.bad("R20.2", key + "#no-datatype-test", "conversion to %s does not test the datatype" % ty, fn.loc)
            continue
        edges = {(c, t) for c, t, _ in tests}
        parses = [(bi, t) for bi, t in fn.calls() if call_name_matches(t, r"str>::parse$")]
        lit_sw = None
        for cand in range(len(fn.blocks)):
            t = fn.blocks[cand]["t"]
            if t["t"] == "switch" and t.get("variants", {}).get("enum") == "core::option::Option":
                o = fn.origin(t["on"])
                if o[0] == "rvalue" and o[1][0] == "discr":
                    src = fn.single_def(o[1][1][0])
                    if src and src[2][0] == "call" and call_name_matches(src[2][1], r"Term::lexical_form$|Term>::lexical_form$"):
                        vals = dict((v, b) for v, b in t["vals"])
                        lit_sw = (cand, vals.get("1", t["else"]))
        if lit_sw is None:
            ck.bad("R20.2", key + "#literal-test", "conversion to %s does not branch on lexical_form() being Some" % ty, fn.loc)
            continue
        for bi, t in parses:
            src = provenance(fn, t["args"][0])[-1]
            if src[0] == "const":
                v = src[1].get("v")
                if isinstance(v, str) and not re.match(r"^[\s+\-0-9.eEinfINFnaNA]*$", v):
                    ck.ok("R20.2", "%s: error path parses the non-numeric constant %r" % (ty, v), nontrivial=False)
                else:
                    ck.bad("R20.2", key + "#error-constant", "error path parses %r, which may succeed" % v, "%s:%s" % (t["file"], t["line"]))
                continue
            target = (t["f"].get("substs") or ["?"])[0]
            # which datatype tests lead here (true edge, not through the same test's false edge)?
            via = sorted({st_.split("::")[-1] for c_, te, st_ in tests
                          if bi in fn.reachable(te, avoid={x for x in fn.succs(c_) if x != te})})
            wrong = [n for n in via if PARSE_AS.get(ty, {}).get(n, ty) != target]
            if wrong:
                ck.bad("R20.2", key + "#parse-type:%s-as-%s" % (wrong[0], target), "the lexical form of an xsd:%s literal is parsed as `%s` in the "
                       "conversion to `%s` (expected `%s`): the conversion succeeds with a value the literal does not denote "
                       "(\"16777217\"^^xsd:float denotes 16777216; \"1e39\"^^xsd:float denotes INF)" % (wrong[0], target, ty, PARSE_AS.get(ty, {}).get(wrong[0], ty)),
                       "%s:%s" % (t["file"], t["line"]))
                continue
            if not via and target != ty:
                ck.bad("R20.2", key + "#parse-type:%s" % target, "the lexical form is parsed as `%s` in the conversion to `%s`: forms that "
                       "are valid for %s but not for %s (or the reverse) get a value the literal does not denote" % (target, ty, target, ty),
                       "%s:%s" % (t["file"], t["line"]))
                continue
            if not comes_from_call(fn, t["args"][0], r"Term::lexical_form$|Term>::lexical_form$"):
                ck.bad("R20.2", key + "#parse-source", "parse() applied to something other than the lexical form", "%s:%s" % (t["file"], t["line"]))
                continue
            # reachable only through a datatype-test true edge and the literal edge
            seen = set()
            stack = [0]
            while stack:
                b = stack.pop()
                if b in seen:
                    continue
                seen.add(b)
                for s in fn.succs(b):
                    if (b, s) in edges:
                        continue
                    stack.append(s)
            unguarded = bi in seen
            if unguarded:
                # the test may be bound to a boolean first (`let accepted = a || b || ..; if !accepted { return .. }`): decide per path
                from mirutil import enumerate_paths
                test_calls = set()
                for _, ct in fn.calls():
                    if call_name_matches(ct, r"term::Term::eq$|Term>::eq$|cmp::PartialEq.*::eq$") and \
                            any(provenance(fn, a)[-1][0] == "const" and provenance(fn, a)[-1][1].get("kind") == "static" for a in ct["args"]) and \
                            any(comes_from_call(fn, a, r"Term::datatype$|Term>::datatype$") for a in ct["args"]):
                        test_calls.add(id(ct))
                try:
                    paths = enumerate_paths(fn, 0, lambda tt, _t=t: "PARSE" if tt is _t else None, max_paths=20000, follow_errors=True, trace=True)
                    unguarded = False
                    for _, toks in paths:
                        passed = False
                        for tk in toks:
                            if isinstance(tk, tuple) and tk[0] == "?" and tk[3] and tk[3][0] == "call" and id(tk[3][1]) in test_calls and tk[2] is True:
                                passed = True
                            if tk == "PARSE" and not passed:
                                unguarded = True
                except CheckError:
                    unguarded = True
            if unguarded:
                ck.bad("R20.2", key + "#unguarded-parse", "the lexical form is parsed as %s on a path that passes no datatype test" % ty,
                       "%s:%s" % (t["file"], t["line"]))
            elif not edge_dominates(fn, lit_sw, bi):
                ck.bad("R20.2", key + "#parse-nonliteral", "parse outside the literal branch", "%s:%s" % (t["file"], t["line"]))
            else:
                ck.ok("R20.2", "%s: parse(lexical) only behind a whitelisted datatype test" % ty)
        # datatype().unwrap() only on the literal branch
        for bi, t in fn.calls():
            if call_name_matches(t, r"Option::<T>::unwrap$") and comes_from_call(fn, t["args"][0], r"Term::datatype$|Term>::datatype$"):
                if not edge_dominates(fn, lit_sw, bi):
                    ck.bad("R20.2", key + "#unwrap-nonliteral", "datatype().unwrap() evaluated for a non-literal term (panic)",
                           "%s:%s" % (t["file"], t["line"]))
    linfo, res = rl.run()
    for oid, r in sorted(res.items()):
        ck.obligation(oid, r["empty"], "" if r["empty"] else "counter-examples %r" % r["witnesses"], witnesses=r["witnesses"])
        if not r["empty"]:
            ck.findings.append(Finding("L20", "L20@" + oid, "language obligation %s fails: %r" % (oid, r["witnesses"])))
    ck.assumptions = ["std: Display of integers is -?[0-9]+; Display of a finite f64 is a plain decimal numeral (no exponent), "
                      "of NaN is `NaN`; FromStr of f64 accepts INF/-INF/NaN (case-insensitively)",
                      "the statics sophia_api::ns::xsd::<name> denote the XSD IRIs of that name"]
    ck.trusted = ["rustc MIR + const eval", "regex-automata (one inclusion)", "XSD 1.1 lexical-space transcriptions"]
