"""C16 — stack use does not grow with data size: recursion structure of the workspace call graph."""
import re
import callgraph
from core import CheckError
from mirutil import call_name_matches, provenance, bool_switch
from tables.recursion import TABLE

LEVEL = "other"
EXPLANATION = (
    "Decides the recursion-structure clause of C16: every cycle of the workspace call graph (type-checked MIR, "
    "callees resolved with Instance::try_resolve, closures folded into their enclosing function) must be an audited "
    "entry of tables/recursion.py whose class bounds its depth by data *nesting* (quoted triples, nested lists, "
    "expression/algebra depth), by log(n), or by a constant; a cycle that is not in the table, a new recursive call "
    "site inside an audited cycle, or one of the automatic loop-as-recursion patterns (self call with all arguments "
    "unchanged; self call on a suffix slice of an own parameter; or, in any function, an iterator replaced inside a loop by an "
    "adaptor of itself, which nests one `next()` frame per iteration) is a violation. "
    "NOT decided: frame sizes, optimiser behaviour, recursion inside third-party crates (rio, json-ld, regex).")

ALLOWED_CLASSES = ("nesting", "logarithmic", "query-bounded", "constant", "out-of-scope")


def root_name(facts, fid):
    fn = facts.fns[fid]
    while fn.kind == "Closure" and fn.root in facts.fns:
        fn = facts.fns[fn.root]
    return fn.name, fn


def collapsed_graph(facts):
    edges = callgraph.build(facts, link_unresolved=False)
    g = {}
    sites = {}
    for caller, outs in edges.items():
        cn, cfn = root_name(facts, caller)
        g.setdefault(cn, set())
        for callee, t, bi in outs:
            if t is None:
                continue        # closure construction: folded
            en, efn = root_name(facts, callee)
            if en == cn and facts.fns[callee].kind == "Closure":
                # a call *into* one of the function's own closures (a local helper closure, a callback handed to an adaptor
                # and resolved): control stays inside the folded node; recursion through a closure shows up as the closure's
                # own call of the enclosing function, which is kept
                continue
            g[cn].add(en)
            sites.setdefault((cn, en), []).append((facts.fns[caller], t, bi))
    return g, sites


def auto_patterns(fn, t):
    """loop-as-recursion patterns on a direct self call `t` inside `fn` (fn is the function itself, not a closure)"""
    hits = []
    args = t["args"]
    if args and len(args) == fn.argc:
        same = True
        for i, a in enumerate(args):
            o = provenance(fn, a)[-1]
            if not (o[0] == "param" and o[1] == i + 1 and not [p for p in o[2] if p != "*"]):
                same = False
        if same:
            hits.append(("P1", "calls itself with all of its own arguments unchanged (recursion used as a loop: depth = "
                               "number of iterations)"))
    for i, a in enumerate(args):
        o = fn.origin(a)
        if o[0] == "call" and call_name_matches(o[1], r"ops::Index<.*>::index$|ops::Index<I> for str>::index$|ops::Index<I> for \[T\]>::index$"):
            base = provenance(fn, o[1]["args"][0])[-1]
            rng = fn.origin(o[1]["args"][1])
            if base[0] == "param" and rng[0] == "agg" and rng[1].get("vname") in ("RangeFrom", "Range", "RangeTo"):
                hits.append(("P2", "calls itself on a sub-slice of its own parameter #%d (depth can grow with the length "
                                   "of the data)" % base[1]))
    return hits


ADAPTORS = r"iter::Iterator::(chain|map|filter|filter_map|flat_map|flatten|zip|skip|take|skip_while|take_while|map_while|peekable|inspect|scan|fuse|step_by|enumerate|rev)$"


def iterator_nesting_hits(fn):
    """P3: inside a loop, an iterator is replaced by an adaptor of itself (`it = Box::new(it.chain(x))`): no call-graph
    recursion, but one more level of nested `next()` frames per iteration when the result is consumed."""
    from mirutil import forward_aliases, root_local
    hits = []
    for bi, t in fn.calls():
        if not call_name_matches(t, ADAPTORS) or not t["args"] or t["args"][0][0] == "k" or len(t["dest"]) != 1:
            continue
        if bi not in fn.reachable(t["to"]):
            continue          # not in a loop
        src_l, src_path = root_local(fn, t["args"][0])
        if src_l is None:
            continue
        # where does the adaptor end up?  follow moves, Box::new and unsizing casts forward
        als = set(forward_aliases(fn, t["dest"][0], limit=12))
        grew = True
        while grew:
            grew = False
            for b2i, t2 in fn.calls():
                if call_name_matches(t2, r"boxed::Box::<T>::new$|convert::Into<.*>>?::into$|convert::From<.*>>?::from$") and t2["args"] \
                        and t2["args"][0][0] != "k" and t2["args"][0][1][0] in als and len(t2["dest"]) == 1 and t2["dest"][0] not in als:
                    als |= set(forward_aliases(fn, t2["dest"][0], limit=12))
                    grew = True
        for b in fn.blocks:
            for st in b["s"]:
                if st[0] == "=" and st[2][0] in ("use", "cast") :
                    op = st[2][1] if st[2][0] == "use" else st[2][2]
                    if op[0] != "k" and op[1][0] in als and st[1][0] == src_l and [p for p in st[1][1:] if p != "*"] == src_path:
                        hits.append((bi, t))
    return hits


def controls(ck):
    """on the control crate: an unlisted cycle is reported; inside listed cycles the loop-as-recursion patterns fire;
    the loop-ified twin is no cycle at all"""
    import core
    fx = core.fixture_facts()
    ctl_table = [dict(members=["Skipper::pos_next_even"], **{"class": "nesting"}, reason="control", edges={"Skipper::pos_next_even -> Skipper::pos_next_even": 1}),
                 dict(members=["pos_count_escapes"], **{"class": "nesting"}, reason="control", edges={"pos_count_escapes -> pos_count_escapes": 1})]
    pr = core.Probe()
    analyse(pr, fx, ctl_table, floor=0)
    ck.control("R16.1", "pos_unclassified_depth (cycle not in the table)", pr.fired(r"^R16\.1@pos_unclassified_depth#unclassified$"))
    ck.control("R16.2", "Skipper::pos_next_even (P1: self call with unchanged arguments)", pr.fired(r"^R16\.2@Skipper::pos_next_even#P1$"))
    ck.control("R16.2", "pos_count_escapes (P2: self call on a suffix of its parameter)", pr.fired(r"^R16\.2@pos_count_escapes#P2$"))
    ck.control("R16.1", "Skipper::neg_next_even (loop)", pr.fired(r"neg_next_even"), expect=False)
    ck.control("R16.2", "pos_nested_chain (P3: iterator re-wrapped in a loop)", pr.fired(r"^R16\.2@pos_nested_chain#P3$"))
    ck.control("R16.2", "neg_flat_chain (collect, then flatten)", pr.fired(r"neg_flat_chain"), expect=False)
    pr2 = core.Probe()
    analyse(pr2, fx, [], floor=0)
    ck.control("R16.1", "Skipper::pos_next_even (unlisted)", pr2.fired(r"^R16\.1@Skipper::pos_next_even#unclassified$"))


# R16.3: recursive data types of the workspace.  The compiler-generated drop glue (and derived Clone / Debug) of a type that contains
# itself recurses once per link.  class "tree": several self occurrences per node, the depth is the nesting of the data (allowed, like
# the "nesting" class of R16.1); class "query": the depth is the size of the query; class "list": ONE self occurrence per node, the
# depth is the number of elements - allowed only with a hand-written, loop-based Drop.
RECURSIVE_TYPES = {
    "sophia_api::term::_simple::SimpleTerm": ("tree", "a quoted triple holds three terms: depth = nesting of quoted triples"),
    "sophia_sparql::expression::ArcExpression": ("query", "operands of an expression: depth = nesting of the query's expressions"),
    "sophia_term::arc_term::ArcTerm": ("tree", "a quoted triple holds three terms"),
    "sophia_term::rc_term::RcTerm": ("tree", "a quoted triple holds three terms"),
    "sophia_sparql::matcher::SparqlMatcher": ("tree", "a quoted-triple pattern holds three matchers: depth = nesting of the query's patterns"),
    "sophia_rio::serializer::Stack": ("list", "one node per quoted triple of the statement being converted (not per nesting level)"),
}


def fn_has_loop(f):
    """a back edge: some block has a successor that dominates it"""
    doms = f.dominators()
    for b in range(len(f.blocks)):
        if f.blocks[b].get("cleanup"):
            continue
        for s_ in f.succs(b):
            if s_ in doms.get(b, ()):
                return True
    return False


def self_occurrences(adt):
    """per variant: how often the type itself occurs in the field types (an array `[Self; N]` counts N times); the field types
    print paths relative to the crate, as the ADT's own `name` does"""
    name = re.escape(adt["name"])
    pat = r"(?<![\w:])%s(?![\w])(?:<[^;\[\]]*>)?" % name
    out = []
    for v in adt.get("variants", []):
        n = 0
        for f in v.get("fields", []):
            ty = f.get("ty", "")
            arrays = re.findall(r"\[\s*%s\s*;\s*(\d+)\s*\]" % pat, ty)
            n += sum(int(k) for k in arrays)
            n += len(re.findall(pat, ty)) - len(arrays)
        out.append(n)
    return out


def recursive_types_rule(ck, facts):
    import core
    fx = core.fixture_facts()
    for name, expect in (("PosChain", True), ("NegChain", False)):
        adt = [a for d, a in fx.adts.items() if d.endswith("::" + name)]
        has_loop_drop = any(re.search(r"<%s(<.*>)? as std::ops::Drop>::drop$" % name, f.name) and fn_has_loop(f) for f in fx.fns.values())
        ck.control("R16.3", name, len(adt) == 1 and max(self_occurrences(adt[0]) or [0]) == 1 and not has_loop_drop, expect)
    n = 0
    for d, adt in sorted(facts.adts.items()):
        if adt.get("coroutine") or not adt.get("crate", "").startswith("sophia"):
            continue
        occ = self_occurrences(adt)
        if not occ or max(occ) == 0:
            continue
        n += 1
        ent = RECURSIVE_TYPES.get(d)
        loc = "%s:%s" % (adt.get("file"), adt.get("line"))
        if ent is None:
            ck.bad("R16.3", "R16.3@%s#unaudited-recursive-type" % adt["name"], "%s contains itself (%s occurrence(s) per variant): its drop glue recurses once "
                   "per link; classify it (tree / query / list) in rules/c16.py" % (adt["name"], occ), loc)
            continue
        cls, why = ent
        if cls == "list" or max(occ) == 1 and cls == "tree":
            short = adt["def"].split("::")[-1]
            drops = [f for f in facts.fns.values() if f.crate == adt["crate"] and re.search(r"<(\w+::)*%s(<.*>)? as std::ops::Drop>::drop$" % short, f.name)]
            if drops and all(fn_has_loop(f) for f in drops):
                ck.ok("R16.3", "%s (list-shaped: %s) unlinks its nodes in a loop (hand-written Drop)" % (adt["name"], why))
            else:
                ck.bad("R16.3", "R16.3@%s#recursive-drop" % adt["name"], "%s is a linked list (%s) without a loop-based Drop: the compiler-generated drop "
                       "glue recurses once per node, so one statement with 65 535 quoted triples (nesting depth 16) overflows a 2 MiB stack in "
                       "the streaming Turtle / TriG / RDF-XML serializers" % (adt["name"], why), loc)
        else:
            ck.ok("R16.3", "%s: %s (%s)" % (adt["name"], cls, why), nontrivial=False)
    ck.floor("R16.3", "recursive data types of the workspace", n, 6)


def run(ck, facts, tier):
    recursive_types_rule(ck, facts)
    facts.require_crates(["sophia_api", "sophia_inmem", "sophia_turtle", "sophia_sparql", "sophia_jsonld", "sophia_c14n"])
    controls(ck)
    analyse(ck, facts, TABLE, floor=20)


def depth_guarded(fn, callee_re, field):
    """The recursive call `callee` in `fn` is (a) on the not-too-deep edge of a comparison of `self.<field>` with a constant,
    and (b) preceded, after that test, by an increment of `self.<field>`.  Returns (call found, guarded)."""
    calls = [(bi, t) for bi, t in fn.calls() if call_name_matches(t, callee_re)]
    if not calls:
        return False, False
    fld = ":" + field

    def reads_field(op):
        if op[0] == "k":
            return False
        if any(str(p).endswith(fld) for p in op[1][1:]):
            return True
        sd = fn.single_def(op[1][0])
        return bool(sd and sd[2][0] == "use" and sd[2][1][0] != "k" and any(str(p).endswith(fld) for p in sd[2][1][1][1:]))
    guards = []
    for bi in range(len(fn.blocks)):
        bs = bool_switch(fn, bi)
        if bs and bs[0][0] == "rvalue" and bs[0][1][0] == "bin" and bs[0][1][1] in ("Ge", "Gt", "Lt", "Le", "Eq", "Ne"):
            a, b = bs[0][1][2], bs[0][1][3]
            if (reads_field(a) and fn.origin(b)[0] == "const") or (reads_field(b) and fn.origin(a)[0] == "const"):
                guards.append((bi, bs[1], bs[2]))
    incs = [bi for bi, b in enumerate(fn.blocks) for st in b["s"]
            if st[0] == "=" and st[2][0] == "bin" and st[2][1] in ("AddWithOverflow", "Add") and reads_field(st[2][2])]
    ok = True
    for cb, t in calls:
        g_ok = any(fn.dominates(gb, cb) and (cb in fn.reachable(e1, avoid={e2})) != (cb in fn.reachable(e2, avoid={e1}))
                   for gb, e1, e2 in guards)
        i_ok = any(fn.dominates(ib, cb) for ib in incs)
        ok = ok and g_ok and i_ok
    return True, ok


def analyse(ck, facts, TABLE, floor):
    g, sites = collapsed_graph(facts)
    comps = []
    for c in callgraph.sccs(sorted(g), lambda n: sorted(g.get(n, ()))):
        if len(c) > 1 or c[0] in g.get(c[0], ()):
            comps.append(sorted(c))
    ck.extra["call_graph"] = dict(functions=len(g), edges=sum(len(v) for v in g.values()), recursive_components=len(comps))
    table = {frozenset(e["members"]): e for e in TABLE}
    seen_entries = set()
    for c in comps:
        key = frozenset(c)
        label = c[0] if len(c) == 1 else "%s(+%d)" % (c[0], len(c) - 1)
        cs = set(c)
        back = {}
        for (a, b), lst in sites.items():
            if a in cs and b in cs:
                back["%s -> %s" % (a, b)] = lst
        locs = sorted({"%s:%s" % (t["file"], t["line"]) for lst in back.values() for _, t, _ in lst})
        e = table.get(key)
        if e is None:
            ck.bad("R16.1", "R16.1@%s#unclassified" % label,
                   "recursive cycle not in the audited table: members=%s; recursive call sites at %s. Recursion depth must "
                   "be bounded by data nesting/log/constant, not by data size." % (c, ", ".join(locs)),
                   locs[0] if locs else None, members=c, sites=locs)
            continue
        seen_entries.add(key)
        if e["class"] not in ALLOWED_CLASSES:
            ck.bad("R16.1", "R16.1@%s#size-driven" % label,
                   "audited as %s: %s" % (e["class"], e["reason"]), locs[0] if locs else None)
            continue
        ok = True
        dg = e.get("depth_guard")
        if dg:
            gfns = [f for f in facts.fns.values() if f.name == dg["fn"] and f.kind != "Closure"]
            found, guarded = depth_guarded(gfns[0], dg["callee"], dg["field"]) if len(gfns) == 1 else (False, False)
            if not (found and guarded):
                ok = False
                ck.bad("R16.1", "R16.1@%s#depth-guard-lost" % label, "the audit of this cycle rests on a depth guard (%s compares self.%s with a "
                       "constant before it recurses into %s, and counts the level): %s" % (dg["fn"].split("::")[-1], dg["field"], dg["callee"],
                                                                                           "the recursive call was not found" if not found else "the guard no longer holds"),
                       locs[0] if locs else None)
        for edge, lst in sorted(back.items()):
            allowed = e["edges"].get(edge, 0)
            if len(lst) > allowed:
                ok = False
                ck.bad("R16.1", "R16.1@%s#new-recursive-site:%s" % (label, edge),
                       "audited cycle (%s) has %d recursive call site(s) %s, the audit covered %d: the new site needs review"
                       % (e["class"], len(lst), edge, allowed),
                       "%s:%s" % (lst[-1][1]["file"], lst[-1][1]["line"]))
        if ok:
            ck.ok("R16.1", label, "%s: %s" % (e["class"], e["reason"]), members=len(c),
                  recursive_sites=sum(len(v) for v in back.values()))
        # automatic patterns on direct self calls
        for (a, b), lst in sites.items():
            if a == b and a in cs:
                for caller_fn, t, bi in lst:
                    if caller_fn.kind == "Closure":
                        continue
                    for pid, msg in auto_patterns(caller_fn, t):
                        if pid in e.get("allow_patterns", {}):
                            ck.ok("R16.2", "%s %s (audited: %s)" % (a, pid, e["allow_patterns"][pid]))
                        else:
                            ck.bad("R16.2", "R16.2@%s#%s" % (a, pid), "%s %s" % (a, msg), "%s:%s" % (t["file"], t["line"]))
    # automatic patterns also apply to unclassified/new cycles (already violations) — nothing more to do.
    ck.floor("R16.1", "recursive components analysed", len(comps), floor)
    # P3 on every function (not only on cycles)
    n3 = 0
    for f in facts.fns.values():
        if f.crate not in ("sophia_api", "sophia_inmem", "sophia_turtle", "sophia_sparql", "sophia_jsonld", "sophia_rio", "sophia_xml",
                           "sophia_resource", "sophia_isomorphism", "sophia_term", "sophia_iri", "vfix"):
            continue
        n3 += 1
        for bi, t in iterator_nesting_hits(f):
            root = f if f.kind != "Closure" else facts.fns.get(f.root, f)
            ck.bad("R16.2", "R16.2@%s#P3" % root.name, "%s replaces an iterator, inside a loop, by an adaptor of itself (%s): the iterator "
                   "returned is nested once per iteration, and consuming it needs one stack frame per level (e.g. per named graph)"
                   % (root.name, t["f"]["name"].split("::")[-1]), "%s:%s" % (t["file"], t["line"]))
    ck.extra["functions_scanned_for_iterator_nesting"] = n3
    ck.extra["table_entries_unused"] = sorted(e["members"][0] for k, e in table.items() if k not in seen_entries)
