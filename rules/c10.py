"""C10 — clones are independent and memory-safe: discipline around the lifetime-laundering transmutes."""
import re
from core import CheckError
from mirutil import (call_name_matches, provenance, bool_switch, edge_dominates, uses_of_local, forward_aliases,
                     comes_from_call)

LEVEL = "other"
EXPLANATION = (
    "Decides the ownership-discipline clause of C10. All `transmute`s in sophia_inmem/sophia_api whose source and "
    "target types differ only in lifetimes are enumerated from MIR. For the one that stores a laundered borrow inside "
    "the struct owning its referent (SimpleTermIndex: i2t borrows from the keys of t2i) the rules are: (a) no derived "
    "or field-wise Clone of the borrower field — the clone must rebuild borrowers from its *own* owner; (b) who-may-call "
    "on the owner field: nothing that can drop or move a key; (d) on every path from storing the laundered value to a "
    "normal return, the key it borrows from is inserted (VacantEntry::insert), so borrower and owner never disagree; "
    "(e) the laundered value derives from the entry's own key. ensure_owned's transmute is applied to a fresh "
    "`clone()` under the true edge of `is_owned()`. Hand-written Clone/clone_from of the stores must be field-wise "
    "(f <- f). (R10.5) there is no *_unchecked operation in sophia_inmem (the audited list is empty: the unwrap_unchecked of the matching iterators rested on the contract of a safe trait and were replaced by checked expects). NOT decided: absence of UB inside std containers; that `&SimpleTerm<'static>` handed out by the stores "
    "cannot be cloned into a value outliving the store (type-level, see known finding / E4 witness).")

SCOPE = ("sophia_inmem", "sophia_api")
OWNER_SHARED_OK = r"HashMap::<K, V, S>::get$|HashMap::<K, V, S, A>::get$|::len$|::is_empty$|::contains_key$|clone::Clone>?::clone$|::iter$|::keys$|fmt::Debug>?::fmt$|::capacity$"
OWNER_MUT_OK = r"HashMap::<K, V, S, A>::entry$|HashMap::<K, V, S>::entry$|::reserve$|::shrink_to_fit$"


def region_only_transmutes(fn):
    for bi, b in enumerate(fn.blocks):
        if b.get("cleanup"):
            continue
        for si, s in enumerate(b["s"]):
            if s[0] == "=" and s[2][0] == "cast" and s[2][1] == "Transmute":
                to_ty, from_ty = s[2][3], s[2][4]
                if to_ty == from_ty and "MaybeUninit" not in to_ty:
                    yield bi, si, s


def field_of_self(fn, operand):
    """if the operand is (a reference to) a field of *self (param 1), return the field name"""
    o = provenance(fn, operand, transparent=())[-1]
    if o[0] == "param" and o[1] == 1 and o[2]:
        m = re.match(r"f\d+:(.*)$", o[2][0])
        if m:
            return m.group(1)
    return None


def controls(ck):
    """the detectors must report the derived Clone of the laundering control struct and accept its repaired twin"""
    import core
    fx = core.fixture_facts()
    pr = core.Probe()
    analyse(pr, fx, ("vfix",), floor=0)
    ck.control("R10.1", "PosLaundering::intern+NegLaundering::intern (transmutes enumerated)",
               len(pr.extra.get("region_only_transmutes", [])) == 2)
    ck.control("R10.2a", "PosLaundering#derived-clone", pr.fired(r"^R10\.2@PosLaundering#derived-clone$"))
    ck.control("R10.2a", "NegLaundering (hand-written rebuilding Clone)", pr.fired(r"NegLaundering"), expect=False)


UNCHECKED_OK = {
    # (function, callee suffix) -> (max count, reason).  Empty since 'fix: the matching iterators no longer rely on a safe
    # trait's contract for memory safety': the six unwrap_unchecked of BcdMatchingIterator::boxed / CdMatchingIterator::boxed had
    # been audited here as "Some by construction (C01 R1.2)", which holds for SimpleTermIndex only - GraphNameIndex is a safe
    # public trait, and an implementation breaking its contract reached UB through safe calls (findings/C10_unchecked_slots.rs).
}


def unchecked_sites(f):
    return [t for _, t in f.calls() if re.search(r"unchecked", t["f"].get("name") or "")
            and not re.search(r"^sophia|::new_unchecked$|::map_unchecked$", t["f"].get("name") or "")]


def unchecked_rule(ck, facts):
    """R10.5: the only `*_unchecked` operations of the in-memory stores are the audited ones.  An unchecked slice access,
    unwrap or str conversion turns a violated precondition into undefined behaviour that safe callers can reach (e.g.
    `get_term(i)` with an index obtained from another store)."""
    import core
    ck.control("R10.5", "pos_unwrap_unchecked", bool(unchecked_sites(core.fixture_fn("pos_unwrap_unchecked"))))
    ck.control("R10.5", "neg_checked_expect", bool(unchecked_sites(core.fixture_fn("neg_checked_expect"))), expect=False)
    seen = {}
    nfn = 0
    for f in facts.fns.values():
        if f.crate != "sophia_inmem":
            continue
        nfn += 1
        root = f if f.kind != "Closure" else facts.fns.get(f.root, f)
        if root.impl and root.impl.get("derived"):
            continue
        for bi, t in f.calls():
            n = t["f"].get("name") or ""
            if not re.search(r"unchecked", n) or re.search(r"^sophia|::new_unchecked$|::map_unchecked$", n):
                continue
            key = (root.name, re.sub(r"^(std|core|alloc)::\w+::", "", n))
            seen[key] = seen.get(key, 0) + 1
            ent = UNCHECKED_OK.get(key)
            if ent is None or seen[key] > ent[0]:
                ck.bad("R10.5", "R10.5@%s#%s" % (root.name, n.split("::")[-1]), "%s calls the unchecked operation %s, which is not in the audited "
                       "list: a violated precondition is undefined behaviour reachable from safe code" % (root.name, n), "%s:%s" % (t["file"], t["line"]))
            else:
                ck.ok("R10.5", "%s: %s (%s)" % (root.name, n.split("::")[-1], ent[1]), nontrivial=(seen[key] == 1))
    if not seen:
        ck.ok("R10.5", "no *_unchecked operation in the %d functions of sophia_inmem" % nfn)
    ck.floor("R10.5", "functions of sophia_inmem scanned for unchecked operations", nfn, 150)


def run(ck, facts, tier):
    facts.require_crates(list(SCOPE))
    controls(ck)
    unchecked_rule(ck, facts)
    analyse(ck, facts, SCOPE, floor=2)
    store_clone_rule(ck, facts)


def analyse(ck, facts, scope, floor):
    sites = []
    for fn in facts.fns.values():
        if fn.crate not in scope:
            continue
        for bi, si, s in region_only_transmutes(fn):
            sites.append((fn, bi, si, s))
    ck.extra["region_only_transmutes"] = ["%s (%s:%s)" % (f.name, f.file, s[3]) for f, _, _, s in sites]
    ck.floor("R10.1", "lifetime-laundering transmutes in sophia_inmem/sophia_api", len(sites), floor)
    audited = 0
    for fn, bi, si, s in sites:
        dest = s[1]
        if fn.name.endswith("term::_simple::ensure_owned"):
            audited += 1
            rule_ensure_owned(ck, fn, bi, s)
        elif fn.impl and fn.impl.get("self_adt") and len(dest) == 1:
            audited += 1
            rule_self_borrow(ck, facts, fn, bi, si, s)
        else:
            ck.bad("R10.1", "R10.1@%s#unaudited-transmute" % fn.name,
                   "lifetime-laundering transmute in a function that matches none of the audited shapes", "%s:%s" % (fn.file, s[3]))


def rule_ensure_owned(ck, fn, bi, s):
    key = "R10.3@ensure_owned"
    op = s[2][2]
    o = fn.origin(op)
    if not (o[0] == "call" and call_name_matches(o[1], r"clone::Clone>?::clone$")):
        ck.bad("R10.3", key + "#operand", "the value whose lifetime is extended is not a fresh `clone()`", fn.loc)
        return
    # dominated by the true edge of is_owned(own argument)
    ok = False
    for cand in sorted(fn.dominators().get(bi, ())):
        bs = bool_switch(fn, cand)
        if bs and bs[0][0] == "call" and call_name_matches(bs[0][1], r"MownStr::<'a>::is_owned$|::is_owned$"):
            a = provenance(fn, bs[0][1]["args"][0])[-1]
            c = provenance(fn, o[1]["args"][0])[-1]
            if a[0] == "param" and c[0] == "param" and a[1] == c[1] and edge_dominates(fn, (cand, bs[1]), bi):
                ok = True
    if ok:
        ck.ok("R10.3", "ensure_owned: transmute(clone(m)) only under is_owned(m) == true")
    else:
        ck.bad("R10.3", key + "#guard", "the lifetime extension is not guarded by `is_owned()` of the same value", fn.loc)


def rule_self_borrow(ck, facts, fn, bi, si, s):
    adt = fn.impl["self_adt"]
    short = adt.split("::")[-1]
    key = "R10.2@%s" % short
    laundered = s[1][0]
    # (e) source: derives from VacantEntry::key of an entry of a field of self
    from mirutil import TRANSPARENT
    src = comes_from_call(fn, s[2][2], r"VacantEntry::<'a, K, V, A>::key$|VacantEntry::<'a, K, V>::key$|::key$",
                          transparent=TRANSPARENT + (r"Term>?::as_simple$",))
    owner_field = None
    entry_local = None
    if src:
        eo = provenance(fn, src[1]["args"][0], transparent=())
        # the entry value: payload of `match self.F.entry(t)`
        ent = comes_from_call(fn, src[1]["args"][0], r"HashMap::<K, V, S, A>::entry$|HashMap::<K, V, S>::entry$|::entry$")
        if ent:
            owner_field = field_of_self(fn, ent[1]["args"][0])
            # local holding the VacantEntry (first place in the provenance chain that is a local copy of the payload)
            first = fn.origin(src[1]["args"][0])
            for cand_l, ds in fn.defs().items():
                for (dbi, dsi, rv) in ds:
                    if rv[0] == "use" and rv[1][0] in ("m", "c") and len(rv[1][1]) > 1 and rv[1][1][0] == ent[1]["dest"][0] \
                            and any(p.startswith("d1:Vacant") or "Vacant" in p for p in rv[1][1][1:]):
                        entry_local = cand_l
    if not owner_field:
        ck.bad("R10.2", key + "#source", "the laundered borrow does not derive from the key of an entry of a field of self "
               "(cannot tell who owns the referent)", "%s:%s" % (fn.file, s[3]))
        return
    ck.ok("R10.2e", "%s: laundered value = view of e.key() of self.%s" % (short, owner_field))
    # sink: where the laundered value is stored
    als = forward_aliases(fn, laundered)
    sink = None
    for cbi, t in fn.calls():
        for a in t["args"][1:]:
            if a[0] in ("m", "c") and a[1][0] in als and len(a[1]) == 1:
                f = field_of_self(fn, t["args"][0])
                if f:
                    sink = (cbi, t, f)
    if not sink:
        ck.bad("R10.2", key + "#sink", "cannot find where the laundered value is stored", "%s:%s" % (fn.file, s[3]))
        return
    sbi, st, borrower_field = sink
    ck.ok("R10.2e", "%s: stored into self.%s by %s" % (short, borrower_field, st["f"]["name"]))
    # (d) every path from the store to a normal return inserts the key
    inserts = [cbi for cbi, t in fn.calls() if call_name_matches(t, r"VacantEntry::<'a, K, V, A>::insert$|VacantEntry::<'a, K, V>::insert$|VacantEntry.*::insert(_entry)?$")
               and entry_local is not None and t["args"][0][0] in ("m", "c") and t["args"][0][1][0] in forward_aliases(fn, entry_local)]
    if not inserts:
        ck.bad("R10.2d", key + "#no-insert", "the key the stored value borrows from is never inserted into self.%s" % owner_field, fn.loc)
    else:
        rets = fn.ret_blocks()
        reach = fn.reachable(sbi, avoid=set(inserts) - {sbi})
        escaping = [r for r in rets if r in reach]
        if escaping and sbi not in inserts:
            ck.bad("R10.2d", key + "#return-without-insert",
                   "after storing a borrow of the entry's key in self.%s the function can return without inserting that key "
                   "into self.%s (the key is dropped, the borrow dangles)" % (borrower_field, owner_field),
                   "%s:%s" % (st["file"], st["line"]))
        else:
            ck.ok("R10.2d", "%s: every path from `%s.push` to return passes VacantEntry::insert" % (short, borrower_field))
        # and the laundering must not be preceded by the insert (key() must be read from the still-vacant entry)
    # (b) who-may-call on the owner field, in every function of the crate
    n_uses = 0
    for f2 in facts.fns.values():
        if f2.crate != fn.crate:
            continue
        root = f2 if f2.kind != "Closure" else facts.fns.get(f2.root, f2)
        if not (root.impl and root.impl.get("self_adt") == adt):
            continue
        if root.impl.get("derived"):
            continue
        for b2i, b2 in enumerate(f2.blocks):
            if b2.get("cleanup"):
                continue
            for st2 in b2["s"]:
                if st2[0] != "=":
                    continue
                rv = st2[2]
                if rv[0] == "ref" and any(p == "f%d:%s" % (i, owner_field) for i in range(8) for p in rv[2][1:]):
                    n_uses += 1
                    mutable = rv[1] == "mut"
                    # find the call consuming this reference
                    tgt = st2[1][0]
                    consumer = None
                    for cb, ct in f2.calls():
                        if any(a[0] in ("m", "c") and a[1][0] in forward_aliases(f2, tgt) for a in ct["args"]):
                            consumer = ct
                            break
                    cname = (consumer["f"].get("name") if consumer else None) or "<none>"
                    pat = OWNER_MUT_OK if mutable else OWNER_SHARED_OK
                    if consumer is None or not re.search(pat, cname):
                        ck.bad("R10.2b", key + "#owner-access:%s:%s" % (f2.name, cname.split("::")[-1]),
                               "self.%s (owner of laundered borrows) is accessed %s by `%s` in %s: only lookups and `entry` "
                               "are audited (anything that can drop or move a key makes self.%s dangle)"
                               % (owner_field, "mutably" if mutable else "by reference", cname, f2.name, borrower_field),
                               "%s:%s" % (f2.file, st2[3]))
                    else:
                        ck.ok("R10.2b", "%s: self.%s -> %s" % (f2.name, owner_field, cname), nontrivial=False)
                elif rv[0] == "use" and rv[1][0] == "m" and any(p.endswith(":" + owner_field) for p in rv[1][1][1:]):
                    ck.bad("R10.2b", key + "#owner-moved:%s" % f2.name, "self.%s is moved out in %s" % (owner_field, f2.name),
                           "%s:%s" % (f2.file, st2[3]))
    ck.floor("R10.2b", "accesses to the owner field", n_uses, 2)
    # (a) Clone impls of the struct
    clones = [i for i in facts.impls if i.get("self_adt") == adt and (i.get("trait") or "").endswith("clone::Clone")]
    if not clones:
        ck.ok("R10.2a", "%s is not Clone" % short)
    for i in clones:
        if i["derived"]:
            ck.bad("R10.2a", key + "#derived-clone",
                   "#[derive(Clone)] on %s copies self.%s field-wise: the clone's borrowers point into the ORIGINAL's "
                   "self.%s keys (use-after-free once the original is dropped or grows)" % (short, borrower_field, owner_field),
                   "%s:%s" % (i["file"], i["line"]))
            continue
        bad = False
        for it in i["items"]:
            f3 = facts.fns.get(it["def"])
            if f3 is None:
                continue
            for f4 in facts.with_closures(f3):
                for cb, ct in f4.calls():
                    if call_name_matches(ct, r"clone::Clone>?::clone$|clone::Clone>?::clone_from$|::to_vec$|::to_owned$"):
                        for a in ct["args"]:
                            if field_of_self(f4, a) == borrower_field and f4.kind != "Closure":
                                bad = True
                                ck.bad("R10.2a", key + "#fieldwise-clone:%s" % it["name"],
                                       "%s::%s clones self.%s as it is: its elements keep borrowing from the original's keys"
                                       % (short, it["name"], borrower_field), "%s:%s" % (ct["file"], ct["line"]))
        if not bad:
            ck.ok("R10.2a", "%s: hand-written Clone does not copy self.%s field-wise" % (short, borrower_field))


def store_clone_rule(ck, facts):
    """R10.4: hand-written Clone/clone_from on a struct of sophia_inmem must be field-wise f <- f."""
    n = 0
    for i in facts.impls:
        if i["crate"] != "sophia_inmem" or not (i.get("trait") or "").endswith("clone::Clone"):
            continue
        n += 1
        if i["derived"]:
            ck.ok("R10.4", "%s: derived Clone (field-wise by construction)" % i["self_ty"], nontrivial=False)
            continue
        for it in i["items"]:
            fn = facts.fns.get(it["def"])
            if fn is None:
                continue
            if it["name"] == "clone_from":
                for cb, ct in fn.calls():
                    if call_name_matches(ct, r"clone::Clone>?::clone_from$") and len(ct["args"]) == 2:
                        a = provenance(fn, ct["args"][0], transparent=())[-1]
                        b = provenance(fn, ct["args"][1], transparent=())[-1]
                        fa = a[2][0] if a[0] == "param" and a[2] else None
                        fb = b[2][0] if b[0] == "param" and b[2] else None
                        if fa is None or fb is None or fa != fb or a[1] == b[1]:
                            ck.bad("R10.4", "R10.4@%s::clone_from#field-mismatch" % i["self_ty"],
                                   "clone_from copies field %s from field %s" % (fa, fb), "%s:%s" % (ct["file"], ct["line"]))
                        else:
                            ck.ok("R10.4", "%s::clone_from %s <- %s" % (i["self_ty"], fa, fb))
            if it["name"] == "clone":
                for b in fn.blocks:
                    for s in b["s"]:
                        if s[0] == "=" and s[2][0] == "agg" and s[2][1]["k"] == "adt" and s[2][1]["def"] == i.get("self_adt"):
                            for idx, op in enumerate(s[2][2]):
                                src = comes_from_call(fn, op, r"clone::Clone>?::clone$")
                                if not src:
                                    continue
                                o = provenance(fn, src[1]["args"][0], transparent=())[-1]
                                fsrc = o[2][0] if o[0] == "param" and o[2] else None
                                if fsrc is not None and not fsrc.startswith("f%d:" % idx):
                                    ck.bad("R10.4", "R10.4@%s::clone#field-mismatch" % i["self_ty"],
                                           "clone() initialises field #%d from %s" % (idx, fsrc), fn.loc)
                                elif fsrc is not None:
                                    ck.ok("R10.4", "%s::clone field #%d <- %s" % (i["self_ty"], idx, fsrc))
    ck.floor("R10.4", "Clone impls in sophia_inmem", n, 5)
    import witness
    witness.apply(ck, "C10")
