"""C19 — the local loader stays inside its directories: taint rule on filesystem-opening calls."""
import re
from core import CheckError
from mirutil import call_name_matches, provenance, bool_switch, edge_dominates, forward_aliases, TRANSPARENT

LEVEL = "other"
EXPLANATION = (
    "Decides the confinement clause of C19 as a taint rule over the MIR of sophia_resource: every call that opens or "
    "reads the file system (std::fs::*, File::open, OpenOptions::open, read_dir, metadata...) whose path argument is "
    "data-dependent on an IRI-typed parameter must take the form `base.join(sub)` with `base` untainted and `sub` "
    "the tainted part, and must be dominated by the success edge of a confinement check on that same `sub`: "
    "`sub.components().all(|c| matches!(c, Component::Normal(_)))` (closure decided from its switch table), or "
    "a canonicalize + starts_with(root) test. `Path::join` of an unchecked IRI-derived string is the violation. "
    "Callers that pass IRIs taken from loaded data need no extra rule: confinement is enforced at the sink. "
    "NOT decided: symlinks inside the configured directories, TOCTOU, behaviour of the OS path resolution.")

FS_SINKS = (r"^std::fs::(read|read_to_string|read_dir|read_link|metadata|symlink_metadata|canonicalize|copy|remove_file|"
            r"remove_dir|remove_dir_all|write|create_dir|create_dir_all|rename|exists)$|"
            r"^std::fs::File::(open|create|open_buffered|create_new|create_buffered)$|^std::fs::OpenOptions::open$|"
            r"^std::path::Path::(exists|is_file|is_dir|read_dir|metadata|canonicalize|try_exists|read_link|symlink_metadata)$|"
            r"^tokio::fs::")
IRI_PARAM = r"sophia_iri::Iri<|sophia_iri::IriRef<|sophia_iri::_wrapper::Iri<"
PATHY = TRANSPARENT + (r"path::Path::new$", r"PathBuf as std::ops::Deref>::deref$", r"path::PathBuf::as_path$",
                       r"convert::AsRef<.*>>::as_ref$", r"path::Path::to_path_buf$", r"PathBuf::from$")


def tainted_locals(fn, sources):
    """flow-insensitive forward closure: locals whose value may depend on a source local"""
    t = set(sources)
    changed = True

    def mentions(x):
        if isinstance(x, list):
            if len(x) == 2 and x[0] in ("c", "m") and isinstance(x[1], list) and x[1] and x[1][0] in t:
                return True
            return any(mentions(y) for y in x)
        if isinstance(x, dict):
            return any(mentions(y) for y in x.values())
        return False
    while changed:
        changed = False
        for b in fn.blocks:
            if b.get("cleanup"):
                continue
            for s in b["s"]:
                if s[0] == "=":
                    rv = s[2]
                    hit = mentions(rv)
                    if rv[0] in ("ref", "rawptr") and rv[2][0] in t:
                        hit = True
                    if rv[0] in ("cfd", "discr") and rv[1][0] in t:
                        hit = True
                    if hit and s[1][0] not in t:
                        t.add(s[1][0])
                        changed = True
            tt = b["t"]
            if tt["t"] == "call" and mentions(tt["args"]) and tt["dest"][0] not in t:
                t.add(tt["dest"][0])
                changed = True
    return t


def only_normal_closure(facts, clo_def):
    """closure |c| matches!(c, Component::Normal(_)): returns true exactly for variant Normal"""
    cfn = facts.fns.get(clo_def)
    if cfn is None:
        return False
    true_variants = set()
    for bi, b in enumerate(cfn.blocks):
        t = b["t"]
        if t["t"] == "switch" and t.get("variants") and t["variants"]["enum"].endswith("path::Component"):
            names = t["variants"]["names"]
            # which targets set _0 = true ?
            def ret_const(target, seen=()):
                if target in seen:
                    return None
                for s in cfn.blocks[target]["s"]:
                    if s[0] == "=" and s[1] == [0] and s[2][0] == "use" and s[2][1][0] == "k":
                        return s[2][1][1].get("v") == "1"
                tt = cfn.blocks[target]["t"]
                if tt["t"] == "goto":
                    return ret_const(tt["to"], seen + (target,))
                return None
            for v, tgt in t["vals"]:
                r = ret_const(tgt)
                if r is None:
                    return False
                if r:
                    true_variants.add(names.get(v))
            other = ret_const(t["else"])
            if other is not False and set(names.values()) - {names.get(v) for v, _ in t["vals"]}:
                return False
            return true_variants == {"Normal"}
    return False


def confinement_edges(facts, fn):
    """(checked place origin, edge (block, target)) for every recognised confinement test in fn"""
    out = []
    for bi, t in fn.calls():
        if call_name_matches(t, r"iter::Iterator::all$|Iterator>::all$") and len(t["args"]) == 2:
            it = None
            for o in provenance(fn, t["args"][0], transparent=PATHY):
                if o[0] == "call" and call_name_matches(o[1], r"path::Path::components$"):
                    it = o
            clo = fn.origin(t["args"][1])
            if it and clo[0] == "agg" and clo[1]["k"] == "closure" and only_normal_closure(facts, clo[1]["def"]):
                subject = provenance(fn, it[1]["args"][0], transparent=PATHY)
                # the switch on all()'s verdict
                for cand in sorted(fn.reachable(t["to"])):
                    bs = bool_switch(fn, cand)
                    if bs and bs[0][0] == "call" and bs[0][1] is t:
                        out.append((subject, (cand, bs[1]), "components().all(Normal)"))
                        break
        if call_name_matches(t, r"path::Path::starts_with$") and len(t["args"]) == 2:
            subj = provenance(fn, t["args"][0], transparent=PATHY)
            if any(o[0] == "call" and call_name_matches(o[1], r"canonicalize$") for o in subj):
                for cand in sorted(fn.reachable(t["to"])):
                    bs = bool_switch(fn, cand)
                    if bs and bs[0][0] == "call" and bs[0][1] is t:
                        out.append((subj, (cand, bs[1]), "canonicalize().starts_with(root)"))
                        break
    return out


def same_value(chain_a, chain_b):
    """two provenance chains denote the same value if they share a call term or a place"""
    for a in chain_a:
        for b in chain_b:
            if a[0] == "call" and b[0] == "call" and a[1] is b[1]:
                return True
            if a[0] == "place" and b[0] == "place" and a[1] == b[1]:
                return True
    return False


def controls(ck):
    import core
    fx = core.fixture_facts()
    pr = core.Probe()
    analyse(pr, fx, "vfix", r"^FakeIri<")
    for name, expect in (("pos_open_unchecked", True), ("pos_open_check_not_dominating", True),
                         ("pos_open_weak_check", True), ("neg_open_checked", False), ("neg_open_constant", False)):
        ck.control("R19.1", name, pr.fired(r"^R19\.1@%s#" % name), expect)


def run(ck, facts, tier):
    facts.require_crates(["sophia_resource"])
    controls(ck)
    sinks, tainted_sinks = analyse(ck, facts, "sophia_resource", IRI_PARAM)
    ck.floor("R19.1", "file-system calls in sophia_resource", sinks, 1)
    ck.floor("R19.1", "file-system calls whose path depends on an IRI parameter", tainted_sinks, 1)
    ck.extra["fs_calls"] = sinks
    ck.extra["fs_calls_tainted_by_iri"] = tainted_sinks


def analyse(ck, facts, crate, iri_param):
    sinks = 0
    tainted_sinks = 0
    fns = [f for f in facts.fns.values() if f.crate == crate]
    for fn in fns:
        root = fn if fn.kind != "Closure" else facts.fns.get(fn.root, fn)
        sources = [i for i in range(1, fn.argc + 1) if re.search(iri_param, fn.locals[i]["ty"])]
        taint = tainted_locals(fn, sources) if sources else set()
        conf = None
        for bi, t in fn.calls():
            name = t["f"].get("name") or ""
            if not re.search(FS_SINKS, name):
                continue
            sinks += 1
            path_arg = t["args"][0] if t["args"] else None
            if path_arg is None or path_arg[0] == "k" or path_arg[1][0] not in taint:
                ck.ok("R19.1", "%s in %s: path not derived from an IRI parameter" % (name, fn.name), nontrivial=False)
                continue
            tainted_sinks += 1
            loc = "%s:%s" % (t["file"], t["line"])
            key = "R19.1@%s#%s" % (fn.name, name.split("::")[-1])
            chain = provenance(fn, path_arg, transparent=PATHY)
            join = None
            for o in chain:
                if o[0] == "call" and call_name_matches(o[1], r"path::Path::join$|path::PathBuf::join$"):
                    join = o
                    break
            if conf is None:
                conf = confinement_edges(facts, fn)
            if join is None:
                # whole path tainted: needs canonicalize + starts_with
                ok = any(kind.startswith("canonicalize") and same_value(subj, chain) and edge_dominates(fn, edge, bi)
                         for subj, edge, kind in conf)
                if ok:
                    ck.ok("R19.1", "%s in %s: canonicalised path tested against the root" % (name, fn.name))
                else:
                    ck.bad("R19.1", key + "#unconfined", "%s opens a path computed from the IRI without `base.join(sub)` + "
                           "confinement check" % name, loc)
                continue
            jt = join[1]
            base, sub = jt["args"][0], jt["args"][1]
            base_t = base[0] != "k" and base[1][0] in taint
            sub_t = sub[0] != "k" and sub[1][0] in taint
            if base_t:
                ck.bad("R19.1", key + "#tainted-base", "the directory part of the opened path depends on the IRI", loc)
                continue
            if not sub_t:
                ck.ok("R19.1", "%s in %s: joined part not IRI-derived" % (name, fn.name), nontrivial=False)
                continue
            sub_chain = provenance(fn, sub, transparent=PATHY)
            ok = None
            for subj, edge, kind in conf:
                if same_value(subj, sub_chain) and edge_dominates(fn, edge, bi) and edge_dominates(fn, edge, join[2]):
                    ok = kind
            if ok:
                ck.ok("R19.1", "%s in %s: `dir.join(sub)` dominated by %s on the same `sub`" % (name, fn.name, ok), where=loc)
            else:
                ck.bad("R19.1", key + "#join-unchecked",
                       "%s opens `dir.join(sub)` where `sub` is the remainder of the IRI and no confinement check "
                       "(components().all(Normal) / canonicalize+starts_with) on `sub` dominates the call: `..` segments "
                       "or a leading `/` escape the configured directory" % name, loc)
    return sinks, tainted_sinks
