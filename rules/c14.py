"""C14 — ORDER BY: comparator structure."""
import re
import json
import panics
from core import CheckError
from mirutil import (call_name_matches, provenance, bool_switch, edge_dominates, enumerate_paths, comes_from_call,
                     TRANSPARENT, blocks_with_agg, root_local)

LEVEL = "other"
EXPLANATION = (
    "Decides the comparator-structure clauses of C14 from the MIR of sophia_sparql. (R14.1) cmp_bindings_with: (unbound, "
    "unbound) -> Equal, (unbound, bound) -> Less, bound -> sparql_order_by (which answers Greater against unbound); DESC applies "
    "reverse() to exactly this key's ordering; later keys are consulted through then_with on the remaining criteria. (R14.2) "
    "total-by-construction discipline: the ordering of two bound values must be a composition of total orders; an "
    "Option<Ordering> obtained from a partial comparison that falls back, on None, to a *different* order is reported "
    "(such a relation is in general not transitive). (R14.4) the table datatype -> parser of SparqlValue::try_from_literal "
    "(each XSD integer type parsed with a Rust type whose value space is that type's, so that derived numeric types compare by "
    "value). (R14.5) coercing_operator hands its two operands to the operator in (lhs, rhs) order on every arm. (R14.3) panic "
    "audit of the comparator closure and cmp_bindings_with. NOT decided: agreement with SPARQL '<' on all comparable pairs "
    "(numeric tower arithmetic, dateTime), i.e. the values compared.")

PARSERS = {
    "decimal": "BigDecimal", "float": "f32", "double": "f64", "long": "i64", "int": "i32", "short": "i16", "byte": "i8",
    "unsignedLong": "u64", "unsignedInt": "u32", "unsignedShort": "u16", "unsignedByte": "u8",
}
INTEGER_LIKE = {"integer", "nonPositiveInteger", "negativeInteger", "nonNegativeInteger", "positiveInteger"}


def find(ck, facts, rule, name_re, what):
    fns = facts.find_fns(crate="sophia_sparql", name_re=name_re)
    if len(fns) != 1:
        ck.bad(rule, "%s@%s#anchor" % (rule, what), "anchor-missing: %s (%d)" % (what, len(fns)))
        return None
    return fns[0]


def cmp_bindings_loop_form(fn):
    """cmp_bindings_with as a loop: the header is the `Iterator::next` on an iterator over the `criteria` parameter; returns the loop
    body as a loop-free copy of the function (edges back to the header end in a fresh return block) plus three facts about the
    tie-breaking, or None when the function does not have that form."""
    import copy
    import core
    from mirutil import leaf_calls
    heads = []
    for bi, t in fn.calls():
        if call_name_matches(t, r"iter::Iterator::next$") and t["args"] and t["args"][0][0] != "k":
            if any(n.startswith("param:3") for n in leaf_calls(fn, t["args"][0], limit=60)):
                heads.append((bi, t))
    if len(heads) != 1 or heads[0][1].get("to") is None:
        return None
    hb, ht = heads[0]
    # the decision on next()'s Option
    sw = None
    for cand in sorted(fn.reachable(ht["to"])):
        tt = fn.blocks[cand]["t"]
        if tt["t"] == "switch" and (tt.get("variants") or {}).get("enum") == "core::option::Option":
            o = fn.origin(tt["on"])
            if o[0] == "rvalue" and o[1][0] == "discr" and o[1][1] and o[1][1][0] == ht["dest"][0]:
                sw = (cand, tt)
                break
    if sw is None:
        return None
    names = sw[1]["variants"]["names"]
    some = [tb for v, tb in sw[1]["vals"] if names.get(v) == "Some"]
    none = [tb for v, tb in sw[1]["vals"] if names.get(v) == "None"] or [sw[1]["else"]]
    if not some:
        some = [sw[1]["else"]]
    body, exit_ = some[0], none[0]
    j = copy.deepcopy(fn.j)
    R = len(j["blocks"])
    j["blocks"].append({"s": [], "t": {"t": "ret", "file": fn.file, "line": fn.line}})
    for b in j["blocks"][:R]:
        t = b["t"]
        for k in ("to", "else"):
            if t.get(k) == hb:
                t[k] = R
        if t.get("vals"):
            t["vals"] = [[v, (R if tb == hb else tb)] for v, tb in t["vals"]]
    body_fn = core.Fn(fn.crate, j)
    in_body = fn.reachable(body, avoid={hb})
    # the decision that separates a tie from a verdict: `o != Ordering::Equal` / `o == Ordering::Equal` / `match o { Equal => .. }`;
    # exactly the Equal side may reach the loop header again, the other side must not
    ties_continue = False
    for b in sorted(in_body):
        tie_edges, other_edges = [], []
        bs = bool_switch(fn, b)
        if bs and bs[0][0] == "call" and call_name_matches(bs[0][1], r"cmp::PartialEq(<.*>)?>?::(ne|eq)$"):
            variants = []
            for a_ in bs[0][1]["args"]:
                o_ = fn.origin(a_)
                if o_[0] == "const" and o_[1].get("kind") == "enumref" and o_[1].get("enum") == "core::cmp::Ordering":
                    variants.append(o_[1].get("variant"))
                elif o_[0] == "agg" and o_[1].get("def") == "core::cmp::Ordering":
                    variants.append(o_[1].get("vname"))
            if variants != ["Equal"]:
                continue
            is_ne = (bs[0][1]["f"].get("name") or "").endswith("::ne")
            tie_edges, other_edges = ([bs[2]], [bs[1]]) if is_ne else ([bs[1]], [bs[2]])
        else:
            t_ = fn.blocks[b]["t"]
            if t_["t"] == "switch" and (t_.get("variants") or {}).get("enum") == "core::cmp::Ordering":
                nm_ = t_["variants"]["names"]
                listed = {nm_.get(v): tb for v, tb in t_["vals"]}
                if "Equal" in listed:
                    tie_edges = [listed["Equal"]]
                    other_edges = [tb for n_, tb in listed.items() if n_ != "Equal"] + ([t_["else"]] if len(listed) < 3 else [])
                elif len(listed) == 2:
                    tie_edges = [t_["else"]]
                    other_edges = list(listed.values())
        if tie_edges and all(hb in fn.reachable(e) for e in tie_edges) and not any(hb in fn.reachable(e) for e in other_edges) \
                and all(any(r in fn.reachable(e) for r in fn.ret_blocks()) for e in other_edges):
            ties_continue = True
    rets_in_body = [r for r in fn.ret_blocks() if r in in_body]
    # what the early return returns: an assignment of a non-constant to the return place inside the body
    computed = False
    for b in in_body:
        for st in fn.blocks[b]["s"]:
            if st[0] == "=" and st[1] == [0] and st[2][0] == "use" and st[2][1][0] != "k":
                computed = True
    exit_equal = False
    exit_blocks = set()
    for b in fn.reachable(exit_, avoid={hb}):
        for st in fn.blocks[b]["s"]:
            if st[0] == "=" and st[1] == [0]:
                sdesc = json.dumps(st[2])
                if "Equal" in sdesc:
                    exit_equal = True
                    exit_blocks.add(b)
    # the code after the loop is entered from the header only (the iterator is exhausted): a `break` out of the body would end the
    # comparison on the current criterion and ignore the remaining ones
    breaks = sorted(exit_blocks & in_body)
    return dict(body=(body_fn, body), ties_continue=ties_continue, early_return_computed=bool(rets_in_body) and computed, exit_equal=exit_equal,
                breaks=breaks)


def cmp_bindings_rule(ck, facts):
    fn = find(ck, facts, "R14.1", r"order_by::cmp_bindings_with$", "cmp_bindings_with")
    if fn is None:
        return
    key = "R14.1@cmp_bindings_with"

    def stm(st):
        if st[0] == "=" and st[2][0] == "agg" and st[2][1].get("def") == "core::cmp::Ordering" and len(st[1]) == 1:
            return "ord:%s" % st[2][1]["vname"]
        if st[0] == "=" and st[2][0] == "use" and st[2][1][0] == "k" and st[2][1][1].get("ty") == "std::cmp::Ordering":
            m = re.search(r"(Less|Equal|Greater)", st[2][1][1].get("dbg", ""))
            return "ord:%s" % (m.group(1) if m else "?")
        return None

    def tok(t):
        nm = t["f"].get("name") or ""
        if nm.endswith("EvalResult::sparql_order_by"):
            return "sparql_order_by"
        if nm.endswith("cmp::Ordering::reverse"):
            return "reverse"
        if nm.endswith("cmp::Ordering::then_with"):
            return "then_with"
        return None
    loop_form = None
    try:
        paths = enumerate_paths(fn, 0, tok, on_stmt=stm)
    except CheckError as e:
        # the same comparator written as a loop over the criteria with an early return (`for (expr, desc) in criteria { ..; if o != Equal
        # { return o } } Equal`): read one iteration (the loop body with its back edge cut) with the same path enumerator
        loop_form = cmp_bindings_loop_form(fn)
        if loop_form is None:
            ck.bad("R14.1", key + "#shape", "cmp_bindings_with is neither the audited recursive shape nor a loop over the criteria (%s): its "
                   "key-by-key structure cannot be read" % e, fn.loc)
            return
        body_fn, body_start = loop_form["body"]
        try:
            paths = enumerate_paths(body_fn, body_start, tok, on_stmt=stm)
        except CheckError as e2:
            ck.bad("R14.1", key + "#shape", "cmp_bindings_with: the body of the loop over the criteria cannot be read (%s)" % e2, fn.loc)
            return
    table = {}
    for conds, toks in paths:
        opts = tuple(o for d, o, s in conds if o in ("Some", "None"))
        desc = [o for d, o, s in conds if d in ("param", "place", "rvalue") or d.endswith("desc")]
        if len(opts) >= 1:
            table.setdefault(opts, set()).add(tuple(toks))
    ok = True
    msgs = []
    for opts, seqs in table.items():
        for seq in seqs:
            first = [x for x in seq if x.startswith("ord:") or x == "sparql_order_by"]
            if opts[:2] == ("None", "None"):
                good = first[:1] == ["ord:Equal"]
            elif opts[:2] == ("None", "Some"):
                good = first[:1] == ["ord:Less"]
            elif opts[:1] == ("Some",):
                good = "sparql_order_by" in seq
            else:
                good = False
            if not good or ("then_with" not in seq and loop_form is None):
                ok = False
                msgs.append((opts, seq))
    if ok and len(table) >= 3:
        ck.ok("R14.1", "cmp_bindings_with: (None,None)->Equal, (None,Some)->Less, (Some,_)->sparql_order_by; %s"
              % ("every path ends in then_with(rest)" if loop_form is None else "one iteration of the loop over the criteria"))
    else:
        ck.bad("R14.1", key + "#table", "decision table of one ORDER BY key is %s (expected unbound<bound, both unbound Equal, bound via "
               "sparql_order_by, and later keys consulted on every path)" % (msgs or sorted(table)), fn.loc)
    # reverse only under desc
    rev = [(bi, t) for bi, t in fn.calls() if (t["f"].get("name") or "").endswith("cmp::Ordering::reverse")]
    if len(rev) != 1:
        ck.bad("R14.1", key + "#reverse", "expected exactly one reverse() (DESC), found %d" % len(rev), fn.loc)
    else:
        rbi, rt = rev[0]
        guarded = False
        for cand in sorted(fn.dominators().get(rbi, ())):
            bs = bool_switch(fn, cand)
            if bs and bs[0][0] in ("param", "place") and edge_dominates(fn, (cand, bs[1]), rbi):
                l, path = root_local(fn, fn.blocks[cand]["t"]["on"])
                guarded = True
        if guarded:
            ck.ok("R14.1", "reverse() applied only when the key's `desc` flag is true")
        else:
            ck.bad("R14.1", key + "#reverse-guard", "reverse() is not guarded by the key's DESC flag", fn.loc)
    if loop_form is not None:
        if loop_form["breaks"]:
            ck.bad("R14.1", key + "#then-with", "the loop over the criteria can be left from its body (`break`) to the code after the loop: the "
                   "comparison then ends on the current criterion with Equal and the remaining criteria are ignored", fn.loc)
        elif loop_form["ties_continue"] and loop_form["early_return_computed"] and loop_form["exit_equal"]:
            ck.ok("R14.1", "loop over the criteria: a tie goes on to the next criterion, the first non-tie is returned, Equal after the last")
        else:
            ck.bad("R14.1", key + "#then-with", "ties on one key are not broken by the remaining keys: in the loop over the criteria %s" % (
                "a tie does not reach the next iteration" if not loop_form["ties_continue"] else
                "the early return does not return the computed ordering" if not loop_form["early_return_computed"] else
                "the result after the last criterion is not Ordering::Equal"), fn.loc)
        return
    # then_with recursion on the rest of the criteria
    tw = [t for _, t in fn.calls() if (t["f"].get("name") or "").endswith("cmp::Ordering::then_with")]
    rec_ok = False
    for t in tw:
        clo = fn.origin(t["args"][1])
        cf = facts.fns.get(clo[1]["def"]) if clo[0] == "agg" and clo[1].get("k") == "closure" else None
        if cf:
            for _, t2 in cf.calls():
                if (t2["f"].get("res") or "") == fn.id:
                    rec_ok = True
    if rec_ok and tw and tw[0]["dest"] == [0]:
        ck.ok("R14.1", "result = o.then_with(|| cmp_bindings_with(.., rest, ..))")
    else:
        ck.bad("R14.1", key + "#then-with", "ties on one key are not broken by the remaining keys through then_with", fn.loc)


def total_order_rule(ck, facts):
    """R14.2: partial comparison with fallback to a different order"""
    n = 0
    scope = [f for f in facts.fns.values() if f.crate == "sophia_sparql" and re.search(r"sparql/src/(expression|exec|value)", f.file)]
    for fn in sorted(scope, key=lambda f: f.id):
        for bi, t in fn.calls():
            if not call_name_matches(t, r"Option::<T>::unwrap_or_else$|Option::<T>::unwrap_or$|Option::<T>::map_or$|Option::<T>::map_or_else$"):
                continue
            if "Ordering" not in fn.locals[t["args"][0][1][0]]["ty"] if t["args"][0][0] != "k" else True:
                continue
            n += 1
            src = fn.origin(t["args"][0])
            src_name = src[1]["f"].get("name") if src[0] == "call" else src[0]
            fb = fn.origin(t["args"][1])
            fb_calls = []
            if fb[0] == "agg" and fb[1].get("k") == "closure":
                cf = facts.fns.get(fb[1]["def"])
                fb_calls = [(t2["f"].get("name") or "") for _, t2 in (cf.calls() if cf else [])]
            other_order = [c for c in fb_calls if re.search(r"::cmp$|::partial_cmp$", c)]
            if other_order:
                short = re.sub(r"^expression::", "", fn.name)
                ck.bad("R14.2", "R14.2@%s#partial-order-fallback" % short,
                       "%s orders two values with the partial comparison `%s` and, where that is undefined, falls back to the different order "
                       "`%s`: the combination is not transitive in general (e.g. \"2\"^^xsd:integer < \"10.0\"^^xsd:decimal by value, but "
                       "both compare with \"x\"^^<..#e> by datatype IRI, giving a cycle), so ORDER BY results depend on the input order and "
                       "comparable values can come out reversed" % (fn.name, src_name, other_order[0]), "%s:%s" % (t["file"], t["line"]))
            elif re.search(r"sparql_order_by|cmp_bindings_with|order_by", fn.name):
                short = re.sub(r"^expression::", "", fn.name)
                ck.bad("R14.2", "R14.2@%s#partial-order-constant" % short,
                       "%s turns the partial comparison `%s` into an Ordering by answering a constant where it is undefined: in a sort "
                       "comparator incomparable values then tie with everything (1 ~ \"n/a\" ~ 2 although 1 < 2), the relation is not "
                       "transitive and the result depends on the input order" % (fn.name, src_name), "%s:%s" % (t["file"], t["line"]))
            else:
                ck.ok("R14.2", "%s: Option<Ordering> defaulted without a second order" % fn.name, nontrivial=False)
        # the same fallback spelled `match a.partial_cmp(b) { Some(o) => o, None => <other order> }`
        from mirutil import try_success_edge
        for bi, t in fn.calls():
            if len(t["dest"]) != 1 or fn.locals[t["dest"][0]]["ty"] != "std::option::Option<std::cmp::Ordering>":
                continue
            if call_name_matches(t, r"Option::<T>::(map|and_then|or|or_else|filter)$"):
                continue
            edge = try_success_edge(fn, t)
            if not edge or fn.blocks[edge[0]]["t"].get("variants", {}).get("enum") != "core::option::Option":
                continue
            sw, some_t, none_t = edge
            region = fn.reachable(none_t, avoid={some_t})
            region -= fn.reachable(some_t, avoid={none_t})
            other_order = [(fn.blocks[b]["t"]["f"].get("name") or "") for b in sorted(region) if fn.blocks[b]["t"]["t"] == "call"
                           and re.search(r"::cmp$|::partial_cmp$", fn.blocks[b]["t"]["f"].get("name") or "")]
            n += 1
            src_name = t["f"].get("name")
            short = re.sub(r"^expression::", "", fn.name)
            if other_order:
                ck.bad("R14.2", "R14.2@%s#partial-order-fallback" % short,
                       "%s orders two values with the partial comparison `%s` and, where that is undefined, falls back to the different order "
                       "`%s`: the combination is not transitive in general (e.g. \"2\"^^xsd:integer < \"10.0\"^^xsd:decimal by value, but "
                       "both compare with \"x\"^^<..#e> by datatype IRI, giving a cycle), so ORDER BY results depend on the input order and "
                       "comparable values can come out reversed" % (fn.name, src_name, other_order[0]), "%s:%s" % (t["file"], t["line"]))
            elif re.search(r"sparql_order_by|cmp_bindings_with|order_by", fn.name):
                ck.bad("R14.2", "R14.2@%s#partial-order-constant" % short,
                       "%s turns the partial comparison `%s` into an Ordering by answering a constant where it is undefined: in a sort "
                       "comparator incomparable values then tie with everything, the relation is not transitive" % (fn.name, src_name),
                       "%s:%s" % (t["file"], t["line"]))
            else:
                ck.ok("R14.2", "%s: Option<Ordering> matched without a second order" % fn.name, nontrivial=False)
    ck.floor("R14.2", "Option<Ordering> fallbacks analysed", n, 1)


def parser_table_rule(ck, facts):
    fn = find(ck, facts, "R14.4", r"value::SparqlValue::try_from_literal$", "SparqlValue::try_from_literal")
    if fn is None:
        return
    got = {}
    for bi in range(len(fn.blocks)):
        bs = bool_switch(fn, bi)
        if not bs or bs[0][0] != "call" or not call_name_matches(bs[0][1], r"PartialEq.*for str>::eq$|cmp::PartialEq(<.*>)?>?::eq$"):
            continue
        consts = [fn.origin(a) for a in bs[0][1]["args"]]
        name = None
        for c in consts:
            if c[0] == "const" and c[1].get("kind") == "str" and isinstance(c[1].get("v"), str):
                name = c[1]["v"]
        if name is None:
            continue
        region = fn.reachable(bs[1], avoid={bs[2]})
        for rb in sorted(region):
            t = fn.blocks[rb]["t"]
            if t["t"] == "call" and edge_dominates(fn, (bi, bs[1]), rb):
                nm = t["f"].get("name") or ""
                if nm.endswith("SparqlNumber::try_parse"):
                    got[name] = (t["f"].get("substs") or ["?"])[0].split("::")[-1]
                    break
                if nm.endswith("SparqlNumber::try_parse_integer"):
                    got[name] = "integer"
                    break
    # xsd:boolean: lexical space {true, false, 1, 0}; Rust's <bool as FromStr> only knows the first two
    for bi in range(len(fn.blocks)):
        bs = bool_switch(fn, bi)
        if not bs or bs[0][0] != "call" or not call_name_matches(bs[0][1], r"PartialEq.*for str>::eq$|cmp::PartialEq(<.*>)?>?::eq$"):
            continue
        if not any(c[0] == "const" and c[1].get("kind") == "str" and c[1].get("v") == "boolean" for c in (fn.origin(a) for a in bs[0][1]["args"])):
            continue
        region = {rb for rb in fn.reachable(bs[1], avoid={bs[2]}) if edge_dominates(fn, (bi, bs[1]), rb)}
        consts = set()
        parses_bool = False

        def walk(x):
            if isinstance(x, dict):
                if x.get("kind") == "str" and isinstance(x.get("v"), str):
                    consts.add(x["v"])
                for v in x.values():
                    walk(v)
            elif isinstance(x, list):
                for v in x:
                    walk(v)
        for c in facts.with_closures(fn):
            blocks = region if c is fn else range(len(c.blocks))
            if c is not fn and not any(st[0] == "=" and st[2][0] == "agg" and st[2][1].get("def") == c.id for rb in region for st in fn.blocks[rb]["s"]):
                continue
            for rb in blocks:
                walk(c.blocks[rb]["s"])
                t = c.blocks[rb]["t"]
                if t["t"] == "call":
                    walk(t["args"])
                    if call_name_matches(t, r"core::str::<impl str>::parse$") and (t["f"].get("substs") or [""])[0] == "bool":
                        parses_bool = True
        if parses_bool or not {"true", "false", "1", "0"} <= consts:
            ck.bad("R14.4", "R14.4@try_from_literal#boolean", "xsd:boolean literals get their value from %s: the lexical space of xsd:boolean is "
                   "{true, false, 1, 0}, so \"1\"^^xsd:boolean is treated as ill-typed (FILTER drops it, ORDER BY sorts it before false)"
                   % ("str::parse::<bool>" if parses_bool else "a match on %s" % sorted(consts & {"true", "false", "1", "0"})), fn.loc)
        else:
            ck.ok("R14.4", "xsd:boolean: the four lexical forms true/false/1/0 are mapped explicitly")
        break
    else:
        ck.bad("R14.4", "R14.4@try_from_literal#boolean-anchor", "anchor-missing: the `boolean` arm of try_from_literal", fn.loc)
    for name, ty in sorted(PARSERS.items()):
        if got.get(name) == ty:
            ck.ok("R14.4", "xsd:%s parsed as %s" % (name, ty))
        else:
            ck.bad("R14.4", "R14.4@try_from_literal#%s" % name, "xsd:%s literals are given a value by parsing as `%s`; the type whose value space "
                   "is xsd:%s is `%s` (valid literals outside the narrower range lose their numeric value and are then ordered as plain "
                   "terms)" % (name, got.get(name), name, ty), fn.loc)
    for name in sorted(INTEGER_LIKE):
        if got.get(name) == "integer":
            ck.ok("R14.4", "xsd:%s parsed as an unbounded integer" % name)
        else:
            ck.bad("R14.4", "R14.4@try_from_literal#%s" % name, "xsd:%s is parsed as %s" % (name, got.get(name)), fn.loc)


def operand_order_rule(ck, facts):
    fn = find(ck, facts, "R14.5", r"_number::SparqlNumber::coercing_operator$", "SparqlNumber::coercing_operator")
    if fn is None:
        return
    n = 0
    bad = 0
    tr = TRANSPARENT + (r"SparqlNumber::coerce_to_\w+$",)
    for bi, t in fn.calls():
        if not call_name_matches(t, r"ops::FnOnce<.*>>?::call_once$|ops::FnOnce::call_once$"):
            continue
        f0 = provenance(fn, t["args"][0], transparent=())[-1]
        if not (f0[0] == "param" and f0[1] >= 3):
            continue
        tup = fn.origin(t["args"][1])
        if not (tup[0] == "agg" and tup[1]["k"] == "tuple" and len(tup[2]) == 2):
            continue
        n += 1
        roots = []
        for op in tup[2]:
            ch = provenance(fn, op, transparent=tr)
            r = None
            for o in ch:
                if o[0] == "param":
                    r = o[1]
                elif o[0] == "place" and o[1]:
                    l, _ = root_local(fn, ["c", o[1]])
                    sd = fn.single_def(l)
                    # pattern bindings of `match (self, rhs)`: tuple local built from params
                    if sd and sd[2][0] == "agg" and sd[2][1]["k"] == "tuple":
                        idx = [int(p[1]) for p in o[1][1:] if re.match(r"f\d+:", p)]
                        if idx:
                            o2 = provenance(fn, sd[2][2][idx[0]], transparent=())[-1]
                            if o2[0] == "param":
                                r = o2[1]
            roots.append(r)
        if roots == [1, 2]:
            ck.ok("R14.5", "coercing_operator bb%d: operator called as f(lhs, rhs)" % bi)
        else:
            bad += 1
            ck.bad("R14.5", "R14.5@coercing_operator#operand-order:param%d" % f0[1], "an arm of coercing_operator calls the operator with operands derived "
                   "from parameters %s instead of (self, rhs): non-commutative operations and comparisons get their operands swapped" % roots,
                   "%s:%s" % (t["file"], t["line"]))
    ck.floor("R14.5", "operator applications in coercing_operator", n, 10)


RANK = {"NativeInt": 0, "BigInt": 1, "Decimal": 2, "Float": 3, "Double": 4}
# which operator parameter (3 = fint .. 7 = fdbl) must be applied for the wider of the two operand types (XPath numeric promotion)
OP_FOR_RANK = {0: {3}, 1: {4}, 2: {5}, 3: {6}, 4: {7}}


def promotion_table_rule(ck, facts):
    """R14.6: numeric promotion is symmetric and goes to the wider type: for every pair of SparqlNumber variants the operator
    applied by coercing_operator is the one of the *wider* of the two types (integer < decimal < float < double), whichever
    side it is on.  (An arm order that lets `(Float, _)` shadow `(_, Double)` compares float-vs-double in f32 one way and in
    f64 the other way: `<` becomes asymmetric.)  The 25 pairs are decided from the match's decision tree."""
    from mirutil import enumerate_paths
    fn = find(ck, facts, "R14.6", r"_number::SparqlNumber::coercing_operator$", "SparqlNumber::coercing_operator")
    if fn is None:
        return

    def on_call(t):
        if call_name_matches(t, r"ops::FnOnce<.*>>?::call_once$|ops::FnOnce::call_once$"):
            f0 = provenance(fn, t["args"][0], transparent=())[-1]
            if f0[0] == "param" and f0[1] >= 3:
                return ("OP", f0[1])
        return None
    try:
        paths = enumerate_paths(fn, 0, on_call, max_paths=4000)
    except CheckError as e:
        ck.bad("R14.6", "R14.6@coercing_operator#shape", str(e), fn.loc)
        return
    table = {}
    for conds, toks in paths:
        v = {}
        for d, outcome, src in conds:
            if src and src[0] == "param" and src[1] in (1, 2) and not src[2] and isinstance(outcome, str):
                cur = set(outcome.split("|"))
                v[src[1]] = (v[src[1]] & cur) if src[1] in v else cur
        ops = [t[1] for t in toks if isinstance(t, tuple) and t[0] == "OP"]
        if not ops:
            continue
        for a in v.get(1, set(RANK)):
            for b in v.get(2, set(RANK)):
                if a in RANK and b in RANK:
                    table.setdefault((a, b), set()).add(ops[0])
    missing = [(a, b) for a in RANK for b in RANK if (a, b) not in table]
    if missing:
        ck.bad("R14.6", "R14.6@coercing_operator#pairs-missing", "no operator application found for the operand types %s" % missing[:4], fn.loc)
        return
    wrong = []
    for (a, b), ops in sorted(table.items()):
        want = OP_FOR_RANK[max(RANK[a], RANK[b])]
        # (NativeInt, NativeInt) may fall back to the BigInt operator on overflow: fint first
        if (a, b) == ("NativeInt", "NativeInt"):
            want = {3}
        if ops != want:
            wrong.append((a, b, sorted(ops), sorted(want)))
    if wrong:
        a, b, got, want = wrong[0]
        names = {3: "fint", 4: "fbig", 5: "fdec", 6: "fflt", 7: "fdbl"}
        ck.bad("R14.6", "R14.6@coercing_operator#promotion:%s/%s" % (a, b), "(%s, %s) is computed with %s, numeric promotion requires %s (the wider "
               "of the two types, on whichever side): comparisons of mixed numeric types become asymmetric" % (
                   a, b, [names.get(x, x) for x in got], [names.get(x, x) for x in want]), fn.loc)
    else:
        ck.ok("R14.6", "coercing_operator: all 25 operand-type pairs promote to the wider type, symmetrically")


def exact_numeric_order_rule(ck, facts):
    """R14.7: SPARQL's `<` on numbers promotes the operands to the wider type (R14.6), which is lossy (16777217 -> 1.6777216E7 as
    a float): 16777216 = 1.6777216E7 = 16777217 while 16777216 < 16777217, so `<` is not a preorder across numeric types.  A
    comparator for ORDER BY therefore has to treat pairs of numbers itself (exact values); delegating them to the operator
    used by FILTER is reported."""
    fn = find(ck, facts, "R14.7", r"expression::EvalResult::sparql_order_by$", "EvalResult::sparql_order_by")
    if fn is None:
        return
    special = False
    for c in facts.with_closures(fn):
        for _, t in c.calls():
            nm = t["f"].get("res_name") or t["f"].get("name") or ""
            if re.search(r"::as_number$|_number::SparqlNumber::|SparqlNumber as ", nm):
                special = True
        for b in c.blocks:
            t = b["t"]
            if t["t"] == "switch" and str((t.get("variants") or {}).get("enum", "")).endswith(("value::SparqlValue", "_number::SparqlNumber")):
                special = True
    if special:
        ck.ok("R14.7", "sparql_order_by compares pairs of numbers itself (whether exactly is not decided)")
    else:
        ck.bad("R14.7", "R14.7@EvalResult::sparql_order_by#numbers-ordered-by-lossy-lt", "sparql_order_by hands every pair of values to sparql_cmp, the "
               "operator `<` of FILTER, whose numeric promotion is lossy: 16777216 = \"1.6777216E7\"^^xsd:float = 16777217 but 16777216 < "
               "16777217, so the comparator is not a preorder and the result order depends on the enumeration order of the store "
               "([16777217, 1.6777216E7, 16777216] for ASC: findings/C14_lossy_promotion_in_order_by.rs)", fn.loc)


def float_coercion_rule(ck, facts):
    """R14.9: the decimal -> xsd:float promotion rounds once: BigDecimal has no to_f32 of its own (the num_traits default is to_f64
    followed by a cast, two roundings: 16777217.0000000001 becomes 16777216, its nearest float is 16777218)."""
    fn = find(ck, facts, "R14.9", r"_number::SparqlNumber::coerce_to_float$", "SparqlNumber::coerce_to_float")
    if fn is None:
        return
    hits = [t for _, t in fn.calls() if call_name_matches(t, r"ToPrimitive>?::to_f32$") and t["args"] and t["args"][0][0] != "k"
            and "BigDecimal" in fn.locals[t["args"][0][1][0]]["ty"]]
    if hits:
        ck.bad("R14.9", "R14.9@coerce_to_float#double-rounding", "a decimal is promoted to xsd:float with BigDecimal's to_f32, which is to_f64 followed "
               "by a cast: decimals within half an f64 ulp of the midpoint of two floats get the wrong float, and tie with a float they "
               "are strictly greater than", "%s:%s" % (hits[0]["file"], hits[0]["line"]))
    else:
        ck.ok("R14.9", "coerce_to_float does not promote decimals through to_f32 (single rounding)")


def key_evaluation_rule(ck, facts):
    """R14.8: the ORDER BY comparator evaluates the key expressions of both solutions on every comparison (O(n log n) evaluations);
    with a key that is not a function of the solution (RAND(), BNODE()) the comparator is not a preorder."""
    fn = find(ck, facts, "R14.8", r"exec::ExecState::<'a, D>::order_by$", "ExecState::order_by")
    if fn is None:
        return
    sorts = [(c, t) for c in facts.with_closures(fn) for _, t in c.calls() if call_name_matches(t, r"slice::<impl \[T\]>::sort\w*$") and len(t["args"]) > 1]
    if not sorts:
        ck.bad("R14.8", "R14.8@order_by#anchor", "anchor-missing: the sort of the collected solutions", fn.loc)
        return
    evals = []
    for c, t in sorts:
        o = c.origin(t["args"][1])
        cf = facts.fns.get(o[1]["def"]) if o[0] == "agg" and o[1].get("k") == "closure" else None
        if cf is None:
            continue
        todo, seen = [cf], set()
        depth = {cf.id: 0}
        while todo:
            g = todo.pop()
            if g.id in seen:
                continue
            seen.add(g.id)
            for u in facts.with_closures(g):
                for _, tt in u.calls():
                    if call_name_matches(tt, r"expression::ArcExpression::eval$"):
                        evals.append(tt)
                    callee = facts.fns.get(tt["f"].get("res") or "")
                    if callee is not None and callee.crate == "sophia_sparql" and depth[g.id] < 2 and re.search(r"order_by|cmp_bindings", callee.name):
                        depth.setdefault(callee.id, depth[g.id] + 1)
                        todo.append(callee)
    if evals:
        ck.bad("R14.8", "R14.8@order_by#keys-evaluated-in-comparator", "the sort comparator evaluates the ORDER BY expressions of the two "
               "solutions it compares, on every comparison: `ORDER BY (RAND() < 0.5) ?x` leaves about a third of 300 solutions out of "
               "order (the comparator is not a preorder for keys that are not functions of the solution), and every key - EXISTS "
               "sub-queries included - is evaluated O(n log n) times", "%s:%s" % (evals[0]["file"], evals[0]["line"]))
    else:
        ck.ok("R14.8", "the ORDER BY comparator compares precomputed keys (no expression is evaluated inside the sort)")


def run(ck, facts, tier):
    facts.require_crates(["sophia_sparql"])
    cmp_bindings_rule(ck, facts)
    total_order_rule(ck, facts)
    parser_table_rule(ck, facts)
    operand_order_rule(ck, facts)
    promotion_table_rule(ck, facts)
    exact_numeric_order_rule(ck, facts)
    float_coercion_rule(ck, facts)
    key_evaluation_rule(ck, facts)
    # R14.3
    fns = [f for f in facts.fns.values() if f.crate == "sophia_sparql" and re.search(r"order_by", f.name)]
    sites = []
    for f in sorted(fns, key=lambda x: x.id):
        sites += panics.sites_of(f)
    panics.controls(ck, "R14.3")
    panics.classify(facts, sites, {})
    for s in sites:
        if s.kind == "validator-call":
            continue
        if s.status == "auto":
            ck.ok("R14.3", s.key, s.reason)
        elif s.kind == "assert":
            ck.ok("R14.3", s.key, "arithmetic check (listed)", nontrivial=False)
        else:
            ck.bad("R14.3", "R14.3@" + s.key, "panic site in the ORDER BY comparator: %s %s (%s)" % (s.kind, s.what, s.detail), s.loc)
    ck.floor("R14.3", "ORDER BY functions", len(fns), 3)
    ck.assumptions = ["std's sort_unstable_by is correct for a total order (it may panic or mis-order otherwise)",
                      "numeric tower arithmetic and dateTime comparison are not decided"]
    ck.trusted = ["rustc MIR"]
