"""E4 runner: compile-fail witnesses (doc-tests of /verif/witness against /repo's crates)."""
import json
import os
import re
import shutil
import subprocess
import tempfile
import core

EXPECT = {
    # witness name -> (property, must_fail_to_compile)
    "c10_ref_escape": ("C10", True), "c10_ref_escape_twin": ("C10", False), "c10_clone_escape": ("C10", True),
    "c01_vec_is_not_a_set": ("C01", True), "c01_vec_is_not_a_set_twin": ("C01", False),
    "c11_two_mutable_views": ("C11", True), "c11_two_mutable_views_twin": ("C11", False),
    "c15_blame_is_typed": ("C15", True), "c15_blame_is_typed_twin": ("C15", False),
}


def results():
    """{witness: 'ok' | 'FAILED'} — cached per tree hash"""
    os.makedirs(core.CACHE, exist_ok=True)
    key = core.tree_hash()
    wdir = os.path.join(core.VERIF, "witness")
    import hashlib
    key += hashlib.sha256(open(os.path.join(wdir, "src", "lib.rs"), "rb").read()).hexdigest()[:8]
    cache = os.path.join(core.CACHE, "witness-%s.json" % key)
    if os.path.exists(cache):
        return json.load(open(cache))
    tmp = tempfile.mkdtemp(prefix="verif-witness.", dir="/var/tmp")
    try:
        crate = os.path.join(tmp, "w")
        shutil.copytree(wdir, crate, ignore=shutil.ignore_patterns("target", "Cargo.lock"))
        toml = open(os.path.join(crate, "Cargo.toml")).read().replace("/repo/", core.REPO.rstrip("/") + "/")
        open(os.path.join(crate, "Cargo.toml"), "w").write(toml)
        shutil.copy(os.path.join(core.REPO, "Cargo.lock"), os.path.join(crate, "Cargo.lock"))
        env = dict(os.environ, CARGO_TARGET_DIR=os.path.join(tmp, "target"), CARGO_NET_OFFLINE="true")
        r = subprocess.run(["cargo", "+nightly", "test", "--doc", "--offline"], cwd=crate, env=env, stdout=subprocess.PIPE,
                           stderr=subprocess.STDOUT, text=True)
        out = {}
        for m in re.finditer(r"^test src/lib\.rs - (\w+) \(line \d+\)(?: - compile fail)? \.\.\. (\w+)", r.stdout, re.M):
            out[m.group(1)] = m.group(2)
        if not out:
            raise core.CheckError("witness doc-tests did not run:\n" + r.stdout[-1500:])
        json.dump(out, open(cache, "w"))
        return out
    finally:
        shutil.rmtree(tmp, ignore_errors=True)


def apply(ck, prop):
    res = results()
    n = 0
    for w, (p, must_fail) in sorted(EXPECT.items()):
        if p != prop:
            continue
        n += 1
        got = res.get(w)
        if got is None:
            ck.bad("E4", "E4@%s#missing" % w, "witness %s did not run" % w)
        elif got == "ok":
            ck.ok("E4", w, "does not compile (with the expected error)" if must_fail else "compiles (twin)", nontrivial=must_fail)
        elif must_fail:
            ck.bad("E4", "E4@%s" % w, "the program in witness/src/lib.rs `%s` type-checks, but must not (see its doc comment)" % w,
                   "witness/src/lib.rs")
        else:
            ck.bad("E4", "E4@%s#twin-broken" % w, "the compiling twin of a witness no longer compiles: the witness proves nothing", "witness/src/lib.rs")
    return n
