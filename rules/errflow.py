"""A.2 error-preserving flow: every Result produced by a call must be delivered (returned, `?`-ed, matched with its Err
payload used, stored or handed on), never dropped (`.ok()`, `is_ok()`, `unwrap_or*`, `let _ =`, unused)."""
import re
from mirutil import call_name_matches, forward_aliases, uses_of_local

DROPPERS = r"Result::<T, E>::(ok|is_ok|is_err|unwrap_or|unwrap_or_else|unwrap_or_default|iter|is_ok_and|is_err_and|map_or|map_or_else)$|^std::mem::drop$|^core::mem::drop$"
RESULT_TY = re.compile(r"^std::result::Result<")


def err_type(ty):
    """the E of `Result<T, E>` (top-level split)"""
    if not RESULT_TY.match(ty):
        return None
    inner = ty[len("std::result::Result<"):-1]
    depth = 0
    for i, c in enumerate(inner):
        if c in "<([":
            depth += 1
        elif c in ">)]":
            depth -= 1
        elif c == "," and depth == 0:
            return inner[i + 1:].strip()
    return None


def result_aliases(fn, d):
    """locals holding the Result itself or a reference to the whole of it"""
    out = set(forward_aliases(fn, d, limit=20))
    work = list(out)
    while work and len(out) < 30:
        l = work.pop()
        for b in fn.blocks:
            for s in b["s"]:
                if s[0] == "=" and len(s[1]) == 1 and s[2][0] == "ref" and s[2][2] == [l] and s[1][0] not in out:
                    for x in forward_aliases(fn, s[1][0], limit=20):
                        if x not in out:
                            out.add(x)
                            work.append(x)
    return out


def dropped_results(fn):
    """yield (block, call term, how) for every call result of type Result<_, E != Infallible> that is dropped"""
    for bi, t in fn.calls():
        if len(t["dest"]) != 1 or t["to"] is None:
            continue
        d = t["dest"][0]
        ty = fn.locals[d]["ty"]
        e = err_type(ty)
        if e is None or e in ("std::convert::Infallible", "!"):
            continue
        if d == 0:
            continue
        als = result_aliases(fn, d)
        returned_in = set()
        if 0 in als:
            # moved into the return place: delivered on the paths that pass the move (checked path-sensitively below)
            for b0i, b0 in enumerate(fn.blocks):
                for s0 in b0["s"]:
                    if s0[0] == "=" and s0[1] == [0] and s0[2][0] == "use" and s0[2][1][0] in ("c", "m") \
                            and s0[2][1][1][0] in als and len(s0[2][1][1]) == 1:
                        returned_in.add(b0i)
            als = als - {0}
        good = bool(returned_in)
        bad = None
        use_blocks = set(returned_in)
        for l in als:
            for ubi, kind, obj in uses_of_local(fn, l):
                if kind == "call":
                    if call_name_matches(obj, DROPPERS):
                        bad = "passed to %s" % obj["f"]["name"]
                    else:
                        good = True
                        use_blocks.add(ubi)
                elif kind == "stmt":
                    rv = obj[2]
                    if rv[0] == "discr":
                        # matched: is the Err payload used?
                        used = False
                        for b2 in fn.blocks:
                            for s2 in b2["s"]:
                                if s2[0] == "=" and s2[2][0] in ("use", "ref", "cfd"):
                                    pl = s2[2][1][1] if s2[2][0] == "use" and s2[2][1][0] != "k" else (s2[2][2] if s2[2][0] == "ref" else (s2[2][1] if s2[2][0] == "cfd" else None))
                                    if pl and pl[0] == l and any(str(p).startswith("d1:Err") for p in pl[1:]):
                                        used = True
                        if used:
                            good = True
                            use_blocks.add(ubi)
                        else:
                            bad = bad or "matched without using the Err payload"
                    elif rv[0] == "use" and len(obj[1]) > 1:
                        good = True       # stored into a field / through a reference
                        use_blocks.add(ubi)
                    elif rv[0] == "use":
                        pass              # alias, handled by result_aliases
                    elif rv[0] == "ref" and rv[2] == [l] and len(obj[1]) == 1:
                        pass              # `&r`: the reference is an alias (what is done through it decides)
                    else:
                        good = True
                        use_blocks.add(ubi)
                elif kind == "switch":
                    pass
        if bad and not good:
            yield bi, t, bad
        elif bad:
            yield bi, t, bad
        elif not good:
            yield bi, t, "never used (dropped)"
        else:
            # path-sensitive part: a normal return reachable from the call without passing any consuming use
            if bi in use_blocks:
                continue
            reach = fn.reachable(t["to"], avoid=use_blocks)
            rets = [r for r in fn.ret_blocks() if r in reach]
            if rets:
                yield bi, t, "dropped on a path that returns without consuming it (return at bb%s)" % rets[0]


def only_error_returns_follow(fn, start):
    """every path from block `start` to a return assigns `Err(..)` to the return place on the way: `start` lies on an error path
    (clean-up whose own failure cannot be reported as well, the first error wins)"""
    from mirutil import blocks_with_agg
    errs = {bi for bi, si, dest, ops in blocks_with_agg(fn, "core::result::Result", "Err") if dest == [0]}
    if not errs or start is None:
        return False
    if start in errs:
        return True
    reach = fn.reachable(start, avoid=errs)
    return not any(r in reach for r in fn.ret_blocks())

