"""C06 — RDFC-1.0 conformance: canonical escaping table, safeguards can only fail, unsupported input rejected first."""
import re
import panics
from core import CheckError
from mirutil import (call_name_matches, provenance, bool_switch, edge_dominates, comes_from_call, TRANSPARENT, blocks_with_agg,
                     fmt_templates, const_bytes_of, root_local, forward_aliases)

LEVEL = "other"
EXPLANATION = (
    "Decides structural clauses of C06 from the MIR of sophia_c14n. (R6.1) the canonical N-Quads escaping table of _cnq::nq, read "
    "from the character switch: \\\" \\\\ \\n \\r \\t \\b \\f, \\u007F for DEL, \\uFFFE / \\uFFFF for the two BMP non-characters (outside XML 1.1 Char), and for the other C0 controls `\\u` + four UPPER-case hex "
    "digits (zero-padded, width 4, Argument::new_upper_hex), every other character pushed unchanged — compared with the "
    "table of RDFC-1.0 / RDF 1.2 canonical N-Quads held in the checker. (R6.2) the two safeguards can only fail: every read of "
    "depth_factor / permutation_limit flows into a comparison whose taken edge returns Err(ToxicGraph), or into that error's "
    "message; never into hashes, paths or issuers. (R6.3) unsupported input is rejected first: the blank-predicate, quoted-triple "
    "and variable tests return Err(Unsupported) and dominate every insertion into the blank-node-to-quads map; C14nError is "
    "constructed only as Unsupported / ToxicGraph / Io / Dataset. (R6.4) panic audit of the canonicalisation functions: each "
    "unwrap/index is auto-discharged or audited by exact key. (R6.5) in Hash N-Degree Quads every occurrence of a related blank "
    "node is appended to Hn[hash] (the push post-dominates the related-hash computation: no de-duplication, step 3.1.2). "
    "(R6.7) in step 5.2 a node of a hash group is skipped, if at all, only because a canonical identifier has been issued for it. (R6.6) each permutation issues temporary identifiers on its own clone of the issuer (step 5.4.2). "
    "NOT decided: equality with the W3C algorithm's output (hash inputs, "
    "path comparison and pruning, issuer copies).")

# U+FFFE / U+FFFF: "characters not matching the Char production of XML 1.1 MUST be represented by UCHAR" (canonical N-Quads);
# in a Rust string these are U+0000 (in the C0 range below) and the two non-characters of the BMP.
CANON = {34: '\\"', 92: "\\\\", 10: "\\n", 13: "\\r", 9: "\\t", 8: "\\b", 12: "\\f", 127: "\\u007F",
         0xFFFE: "\\uFFFE", 0xFFFF: "\\uFFFF"}

PANIC_TABLE = {
    "rdfc10::C14nState::<'_, H, T>::hash_related_bnode#unwrap:unwrap:call:sophia_api::prelude::Term::iri":
        (1, "position != g, so the component pair is (s|p|o): the predicate of a quad that passed step 2 is not a blank node, literal, "
            "quoted triple or variable (all four rejected with Unsupported: R6.3), i.e. an IRI"),
    "rdfc10::C14nState::<'_, H, T>::hash_related_bnode#unwrap:unwrap:call:std::collections::BTreeMap::<K, V, A>::get":
        (1, "b2h has an entry for every blank node of the dataset (filled in step 3 for every key of b2q)"),
    "rdfc10::C14nState::<'_, H, T>::hash_n_degree_quads#unwrap:unwrap:call:std::collections::BTreeMap::<K, V, A>::get":
        (1, "identifier is a key of b2q: callers pass keys of h2b's lists (built from b2q) or related blank nodes of its quads"),
    "rdfc10::C14nState::<'_, H, T>::hash_n_degree_quads#panic-call:assert:-":
        (1, "step 2 of relabel_with rejected quoted triples and variables before b2q was filled"),
    "rdfc10::relabel_with::{closure#2}::{closure#0}#unwrap:unwrap:call:std::collections::BTreeMap::<K, V, A>::get":
        (1, "every blank node of the dataset has been issued a canonical identifier in steps 4-5 (each key of b2q is in exactly one "
            "h2b list, and every list is processed)"),
    "rdfc10::hex#unwrap:unwrap:call:std::fmt::Write::write_fmt": (1, "fmt::Write for String never fails"),
    "rdfc10::relabel_with#panic-call:debug_assert:std::vec::Vec::<T, A>::is_empty":
        (1, "h2b lists are created by entry().or_default().push(..), hence non-empty"),
    "rdfc10::relabel_with#index:Vec:const:0": (1, "on the branch bnids.len() <= 1 of a non-empty list"),
    "rdfc10::relabel_with#index:Vec:RangeFull": (1, "full range"),
    "_permutations::permutations#assert:rem_zero:-": (1, "`size % 2`: constant divisor 2"),
    "rdfc10::hash_first_degree_quads#panic-call:debug_assert:const": (1, "debug_assert!({ log::trace!(..); true }) — the block always yields true"),
    "rdfc10::C14nState::<'_, H, T>::hash_n_degree_quads#panic-call:debug_assert:const": (1, "debug_assert!({ log::trace!(..); true })"),
    "rdfc10::C14nState::<'_, H, T>::hash_n_degree_quads#panic-call:assert:sophia_api::prelude::Term::is_triple":
        (1, "step 2 of relabel_with rejected quoted triples and variables before b2q was filled (R6.3)"),
}


def find(ck, facts, rule, name_re, what):
    fns = facts.find_fns(crate="sophia_c14n", name_re=name_re)
    if len(fns) != 1:
        ck.bad(rule, "%s@%s#anchor" % (rule, what), "anchor-missing: %s (%d)" % (what, len(fns)))
        return None
    return fns[0]


def escape_rule(ck, facts):
    """R6.1: the per-character decision of _cnq::nq, *evaluated* (predicate abstraction over the code point: switches, range and
    comparison tests on the character are followed with eval_pure) for every code point that any test of the function
    mentions, their neighbours and samples of every Unicode region, and compared with the canonical N-Quads table."""
    from mirutil import eval_pure
    fn = find(ck, facts, "R6.1", r"^_cnq::nq$", "_cnq::nq")
    if fn is None:
        return
    # the character of the literal loop: a `char` local assigned from the Some payload of Chars::next()
    starts = []
    for bi, b in enumerate(fn.blocks):
        if b.get("cleanup"):
            continue
        for si, st in enumerate(b["s"]):
            if st[0] == "=" and len(st[1]) == 1 and fn.locals[st[1][0]]["ty"] == "char" and st[2][0] == "use" and st[2][1][0] != "k" \
                    and any(str(p_).startswith("d1:Some") for p_ in st[2][1][1][1:]):
                starts.append((bi, si, st[1][0]))
    if len(starts) != 1:
        ck.bad("R6.1", "R6.1@nq#switch", "expected one loop over the characters of the lexical form (found %d)" % len(starts), fn.loc)
        return
    sb, ss, cl = starts[0]
    consts = set()
    for b in fn.blocks:
        t = b["t"]
        if t["t"] == "switch" and t.get("ty") == "char":
            consts |= {int(v) for v, _ in t["vals"]}
        for st in b["s"]:
            if st[0] == "=" and st[2][0] == "bin":
                for op in st[2][2:4]:
                    if op[0] == "k" and op[1].get("ty") in ("char", "u32") and op[1].get("kind") == "int":
                        consts.add(int(op[1]["v"]))
    sample = set(CANON) | consts | {0, 1, 7, 0x0B, 0x0E, 0x1F, 0x20, 0x21, 0x41, 0x7E, 0x80, 0x85, 0xA0, 0xD7FF, 0xE000, 0xFFFD, 0x10000, 0x1FFFE, 0x10FFFF}
    sample |= {c + d for c in list(sample) for d in (-1, 1)}
    sample = sorted(c for c in sample if 0 <= c <= 0x10FFFF and not 0xD800 <= c <= 0xDFFF)
    bad_esc, extra, hexed, raw_n, hex_blocks = [], [], 0, 0, set()
    for cp in sample:
        try:
            r = eval_pure(fn, sb, ss + 1, {cl: cp}, lambda b_: None)
        except CheckError as e:
            ck.bad("R6.1", "R6.1@nq#switch", "the escape decision is not a function of the character alone: %s" % e, fn.loc)
            return
        t = fn.blocks[r[1]]["t"] if r[0] == "term" else None
        if t is None or t["t"] != "call":
            got = ("?", None)
        elif call_name_matches(t, r"String::push_str$"):
            got = ("esc", const_bytes_of(fn, t["args"][1]))
        elif call_name_matches(t, r"String::push$"):
            o = fn.origin(t["args"][1]) if len(t["args"]) > 1 else ("?",)
            got = ("raw", None)
        elif call_name_matches(t, r"fmt::rt::Argument::<'_>::new_upper_hex$"):
            got = ("hex-upper", None)
            hex_blocks.add(r[1])
        elif call_name_matches(t, r"fmt::rt::Argument::<'_>::new_lower_hex$"):
            got = ("hex-lower", None)
        else:
            got = ("?", t["f"].get("name"))
        want = ("esc", CANON[cp]) if cp in CANON else (("hex-upper", None) if cp <= 0x1F else ("raw", None))
        if got == want:
            hexed += got[0] == "hex-upper"
            raw_n += got[0] == "raw"
            continue
        if got[0] == "hex-lower":
            ck.bad("R6.1", "R6.1@nq#lower-hex", "control characters are escaped with lower-case hex digits; canonical N-Quads requires \\uXXXX "
                   "with upper-case hex (the output, and every hash over it, differs from other implementations)", fn.loc)
            return
        if want[0] == "esc":
            bad_esc.append((cp, got))
        elif want[0] == "hex-upper":
            ck.bad("R6.1", "R6.1@nq#control-range", "U+%04X is written as %s; canonical N-Quads writes the C0 controls without a dedicated escape "
                   "as \\u + four upper-case hex digits" % (cp, got), fn.loc)
            return
        else:
            extra.append((cp, got))
    for cp, esc in sorted(CANON.items()):
        hit = [g for c, g in bad_esc if c == cp]
        if hit:
            ck.bad("R6.1", "R6.1@nq#escape:U+%04X" % cp, "U+%04X is written as %r; canonical N-Quads requires %r" % (cp, hit[0][1] if hit[0][0] == "esc" else hit[0][0], esc), fn.loc)
        else:
            ck.ok("R6.1", "U+%04X -> %s" % (cp, esc))
    if extra:
        if any(g[0] == "hex-upper" and c > 0x1F for c, g in extra):
            lim = max(c for c, g in extra if g[0] == "hex-upper")
            ck.bad("R6.1", "R6.1@nq#control-range", "the generic \\uXXXX escape applies up to U+%04X, canonical N-Quads says U+001F" % lim, fn.loc)
        elif any(g[0] == "esc" for c, g in extra):
            ck.bad("R6.1", "R6.1@nq#extra-escapes", "characters %s are escaped although canonical N-Quads writes them raw" % ["U+%04X" % c for c, g in extra if g[0] == "esc"][:6], fn.loc)
        else:
            ck.bad("R6.1", "R6.1@nq#raw", "characters that need no escape are not pushed unchanged (%s)" % ["U+%04X: %s" % (c, g) for c, g in extra][:3], fn.loc)
    else:
        ck.ok("R6.1", "every other character is pushed unchanged (%d samples)" % raw_n)
    # the template of the generic escape: literal `\u` + one argument, zero-padded, width 4
    tpl_ok = False
    for hb in hex_blocks:
        region = fn.reachable(hb)
        for tb, tt, tpl in fmt_templates(fn):
            if tb in region and tpl is not None:
                lits = "".join(x[1] for x in tpl if x[0] == "lit")
                nargs = sum(1 for x in tpl if x[0] == "arg")
                raw = provenance(fn, tt["args"][0], transparent=())[-1]
                v = raw[1].get("v") if raw[0] == "const" else None
                bts = bytes(v) if isinstance(v, list) else (v.encode() if isinstance(v, str) else b"")
                width4 = False
                k = 0
                while k < len(bts):
                    n = bts[k]
                    k += 1
                    if n == 0:
                        break
                    if n < 128:
                        k += n
                    elif n >= 0xC0:
                        k += 4 if n & 1 else 0
                        width = int.from_bytes(bts[k:k + 2], "little") if n & 2 else None
                        k += 2 if n & 2 else 0
                        k += 2 if n & 4 else 0
                        k += 2 if n & 8 else 0
                        if width == 4:
                            width4 = True
                if lits == "\\u" and nargs == 1 and width4:
                    tpl_ok = True
    if hexed and tpl_ok:
        ck.ok("R6.1", "other C0 controls -> \\u + 4 upper-case hex digits (%d samples)" % hexed)
    elif not any(f.key in ("R6.1@nq#lower-hex", "R6.1@nq#control-range") for f in ck.findings):
        ck.bad("R6.1", "R6.1@nq#uXXXX-shape", "the generic escape is not `\\u{:04X}` (template ok=%s, samples=%d)" % (tpl_ok, hexed), fn.loc)


def safeguards_rule(ck, facts):
    n = 0
    for fn in sorted(facts.fns.values(), key=lambda f: f.id):
        if fn.crate != "sophia_c14n" or (fn.impl and fn.impl.get("derived")):
            continue
        reads = {}
        for bi, b in enumerate(fn.blocks):
            if b.get("cleanup"):
                continue
            for st in b["s"]:
                if st[0] != "=" or st[2][0] not in ("use", "ref") or len(st[1]) != 1:
                    continue
                pl = st[2][1][1] if st[2][0] == "use" and st[2][1][0] != "k" else (st[2][2] if st[2][0] == "ref" else None)
                if not pl:
                    continue
                flds = [p.split(":")[1] for p in pl[1:] if p.endswith((":depth_factor", ":permutation_limit"))]
                if flds:
                    reads.setdefault(flds[0], set()).add(st[1][0])
        for fld, seeds in sorted(reads.items()):
            n += 1
            tainted = set(seeds)
            sinks = []
            changed = True

            def mentions(x):
                if isinstance(x, list):
                    if len(x) == 2 and x[0] in ("c", "m") and isinstance(x[1], list) and x[1] and x[1][0] in tainted:
                        return True
                    if len(x) == 3 and x[0] in ("ref", "rawptr") and isinstance(x[2], list) and x[2] and x[2][0] in tainted:
                        return True
                    return any(mentions(y) for y in x)
                return False
            while changed:
                changed = False
                for b2i, b2 in enumerate(fn.blocks):
                    if b2.get("cleanup"):
                        continue
                    for s2 in b2["s"]:
                        if s2[0] == "=" and mentions(s2[2]):
                            if len(s2[1]) > 1:
                                if ("store", b2i) not in [(k, b) for k, b, _ in sinks]:
                                    sinks.append(("store", b2i, s2))
                            elif s2[1][0] not in tainted:
                                tainted.add(s2[1][0])
                                changed = True
                    t2 = b2["t"]
                    if t2["t"] == "call" and mentions(t2["args"]):
                        nm = t2["f"].get("name") or ""
                        if re.search(r"fmt::rt::Argument::<'_>::new_\w+$|fmt::Arguments|cmp::PartialOrd|cmp::PartialEq|fmt::format$|hint::must_use$", nm):
                            if t2["dest"] and t2["dest"][0] not in tainted:
                                tainted.add(t2["dest"][0])
                                changed = True
                        elif ("call", b2i) not in [(k, b) for k, b, _ in sinks]:
                            sinks.append(("call", b2i, t2))
            # what the tainted values are allowed to become: a ToxicGraph error (message) — nothing else
            toxic_msgs = set()
            for b2 in fn.blocks:
                for s3 in b2["s"]:
                    if s3[0] == "=" and s3[2][0] == "agg" and s3[2][1].get("vname") == "ToxicGraph":
                        toxic_msgs.add(s3[1][0])
            bad = []
            for k, b2i, obj in sinks:
                if k == "call":
                    bad.append(obj["f"].get("name"))
                else:
                    if not (obj[2][0] == "agg" and obj[2][1].get("vname") in ("ToxicGraph", "Err")):
                        bad.append("a stored value")
            toxic = False
            for b2i in range(len(fn.blocks)):
                bs = bool_switch(fn, b2i)
                t2 = fn.blocks[b2i]["t"]
                if bs and t2["on"][0] != "k" and t2["on"][1][0] in tainted:
                    for tgt, other in ((bs[1], bs[2]), (bs[2], bs[1])):
                        reach_t = fn.reachable(tgt, avoid={other})
                        if any(s3[0] == "=" and s3[2][0] == "agg" and s3[2][1].get("vname") == "ToxicGraph" for x in reach_t for s3 in fn.blocks[x]["s"]):
                            toxic = True
            key = "R6.2@%s#%s" % (fn.name, fld)
            # a float safeguard must stay a float until it is compared: a FloatToInt cast on the way truncates a fractional
            # factor (0.5 -> 0) and turns the documented limit `factor x N` into 0
            for b2 in fn.blocks:
                for s3 in b2["s"]:
                    if s3[0] == "=" and s3[2][0] == "cast" and s3[2][1] == "FloatToInt" and s3[2][2][0] != "k" and s3[2][2][1][0] in tainted:
                        ck.bad("R6.2", key + "#truncated", "the safeguard `%s` (a fractional factor) is cast to an integer before it is "
                               "compared: a factor below 1 becomes 0 and every recursion is rejected as ToxicGraph" % fld, "%s:%s" % (fn.file, s3[3]))
            passes_on = re.search(r"::new$|normalize\w*$|relabel\w*$", fn.name)
            if bad and not passes_on:
                ck.bad("R6.2", key + "#leaks", "the safeguard `%s` flows into %s: it must only decide whether to fail with ToxicGraph" % (fld, bad[0]), fn.loc)
            elif toxic:
                ck.ok("R6.2", "%s: %s only compared (and quoted in the error); exceeding it returns Err(ToxicGraph)" % (fn.name, fld))
            elif passes_on:
                ck.ok("R6.2", "%s hands %s on unchanged" % (fn.name, fld), nontrivial=False)
            else:
                ck.bad("R6.2", key + "#no-failure", "`%s` is read in %s but no comparison on it leads to Err(ToxicGraph)" % (fld, fn.name), fn.loc)
    ck.floor("R6.2", "functions reading a safeguard field", n, 2)


def unsupported_rule(ck, facts):
    fn = find(ck, facts, "R6.3", r"^rdfc10::relabel_with$", "relabel_with")
    if fn is None:
        return
    # C14nError constructions in the whole crate
    variants = {}
    for f in facts.fns.values():
        if f.crate != "sophia_c14n":
            continue
        for bi, si, dest, ops in blocks_with_agg(f, "sophia_c14n::C14nError"):
            v = f.blocks[bi]["s"][si][2][1]["vname"]
            variants.setdefault(v, 0)
            variants[v] += 1
        for bi, t in f.calls():
            for a in t["args"]:
                if a[0] == "k" and a[1].get("kind") == "fn" and "C14nError::" in a[1].get("def", ""):
                    v = re.search(r"C14nError::(\w+)", a[1]["def"]).group(1)
                    variants.setdefault(v, 0)
                    variants[v] += 1
    if set(variants) <= {"Unsupported", "ToxicGraph", "Io", "Dataset"} and {"Unsupported", "ToxicGraph"} <= set(variants):
        ck.ok("R6.3", "C14nError constructed only as %s" % dict(variants))
    else:
        ck.bad("R6.3", "R6.3@C14nError#variants", "canonicalisation errors constructed: %s (expected only Unsupported, ToxicGraph, Io, Dataset)" % variants, None)
    # insertion into b2q dominated by the three tests
    ins = []
    for bi, t in fn.calls():
        if call_name_matches(t, r"Vec::<T, A>::push$"):
            od = comes_from_call(fn, t["args"][0], r"::or_default$", transparent=())
            if od:
                en = comes_from_call(fn, od[1]["args"][0], r"BTreeMap::<K, V, A>::entry$|BTreeMap::<K, V>::entry$", transparent=())
                if en and any(p.endswith(":b2q") for p in root_local(fn, en[1]["args"][0])[1]):
                    ins.append(bi)
    builders = {f.id for f in facts.fns.values() if f.crate == "sophia_c14n" and f is not fn and len(f.blocks) <= 12
                and any(s3[0] == "=" and s3[2][0] == "agg" and s3[2][1].get("vname") == "Unsupported" for b in f.blocks for s3 in b["s"])}
    tests = {"is_blank_node": None, "is_literal": None, "is_triple": None, "is_variable": None}
    for bi in range(len(fn.blocks)):
        bs = bool_switch(fn, bi)
        if bs and bs[0][0] == "call":
            m = re.search(r"Term>?::(is_blank_node|is_literal|is_triple|is_variable)$", bs[0][1]["f"].get("name") or "")
            if m:
                # the true edge must reach an Unsupported error and not the insertion
                reach = fn.reachable(bs[1], avoid={bs[2]})
                unsup = any(s3[0] == "=" and s3[2][0] == "agg" and s3[2][1].get("vname") == "Unsupported" for x in reach for s3 in fn.blocks[x]["s"])
                # ... or the error is built by a local helper (a closure of relabel_with / a small function of the crate)
                unsup = unsup or any(fn.blocks[x]["t"]["t"] == "call" and (fn.blocks[x]["t"]["f"].get("res") or fn.blocks[x]["t"]["f"].get("def")) in builders
                                     for x in reach)
                if unsup:
                    tests[m.group(1)] = (bi, bs[2])
    # a literal is refused in subject, predicate and graph-name position (generalised datasets can hold one there)
    lit_pos = set()
    for c_ in facts.with_closures(fn):
        for _, t_ in c_.calls():
            if call_name_matches(t_, r"Term>?::is_literal$") and t_["args"]:
                for pv in provenance(c_, t_["args"][0]):
                    if pv[0] == "call":
                        m_ = re.search(r"Quad>?::(s|p|g)$", pv[1]["f"].get("name") or "")
                        if m_:
                            lit_pos.add(m_.group(1))
                if c_ is not fn:
                    # `quad.g().is_some_and(|gn| gn.is_literal())`: the closure's argument is the graph name
                    for _, t2 in fn.calls():
                        if call_name_matches(t2, r"Option::<T>::is_some_and$") and any(p_[0] == "call" and re.search(r"Quad>?::g$", p_[1]["f"].get("name") or "")
                                                                                       for p_ in provenance(fn, t2["args"][0])):
                            o_ = fn.origin(t2["args"][1]) if len(t2["args"]) > 1 else ("?",)
                            if o_[0] == "agg" and o_[1].get("def") == c_.id:
                                lit_pos.add("g")
    if tests.get("is_literal") is not None and not {"s", "p", "g"} <= lit_pos:
        ck.bad("R6.3", "R6.3@relabel_with#literal-position:%s" % ",".join(sorted({"s", "p", "g"} - lit_pos)), "relabel_with does not refuse a literal "
               "in position %s: the output is not N-Quads (and, for a graph name, not in code point order)" % sorted({"s", "p", "g"} - lit_pos), fn.loc)
    miss = [k for k, v in tests.items() if v is None]
    if miss:
        ck.bad("R6.3", "R6.3@relabel_with#missing-test:%s" % ",".join(miss), "relabel_with does not reject %s with Err(Unsupported)" % miss, fn.loc)
    elif not ins:
        ck.bad("R6.3", "R6.3@relabel_with#b2q", "cannot find the insertion into the blank-node-to-quads map", fn.loc)
    else:
        bad = [k for k, (tb, fe) in tests.items() for ib in ins if not (fn.dominates(tb, ib) and ib in fn.reachable(fe))]
        if bad:
            ck.bad("R6.3", "R6.3@relabel_with#late-test:%s" % ",".join(sorted(set(bad))), "a quad can be recorded before the %s test: unsupported "
                   "input is not rejected first" % sorted(set(bad)), fn.loc)
        else:
            ck.ok("R6.3", "blank or literal predicate / quoted triple / variable -> Err(Unsupported) before the quad is recorded")
    if ins:
        quad_reference_once_rule(ck, fn, ins)
    else:
        ck.bad("R6.8", "R6.8@relabel_with#anchor", "anchor-missing: the insertion into the blank-node-to-quads map", fn.loc)


def derived_locals(fn, seeds, within):
    """locals computed (by assignments or calls, in blocks of `within`) from the seed locals"""
    tainted = set(seeds)

    def mentions(x):
        if isinstance(x, list):
            if len(x) == 2 and x[0] in ("c", "m") and isinstance(x[1], list) and x[1] and x[1][0] in tainted:
                return True
            if len(x) == 3 and x[0] in ("ref", "rawptr") and isinstance(x[2], list) and x[2] and x[2][0] in tainted:
                return True
            return any(mentions(y) for y in x)
        return False
    changed = True
    while changed:
        changed = False
        for bi in within:
            b = fn.blocks[bi]
            for st in b["s"]:
                if st[0] == "=" and mentions(st[2]) and st[1][0] not in tainted:
                    tainted.add(st[1][0])
                    changed = True
            t = b["t"]
            if t["t"] == "call" and mentions(t["args"]) and t["dest"] and t["dest"][0] not in tainted:
                tainted.add(t["dest"][0])
                changed = True
    return tainted


def unguarded_entry_pushes(fn, pushes):
    """of the given `entry(..).or_default().push(..)` blocks, those reached from or_default without a test on the list"""
    out = []
    for pb in pushes:
        t = fn.blocks[pb]["t"]
        od = comes_from_call(fn, t["args"][0], r"::or_default$|::or_insert(_with)?$", transparent=())
        if not od:
            out.append(pb)
            continue
        odb = [bi for bi, tt in fn.calls() if tt is od[1]][0]
        region = {b for b in fn.reachable(fn.blocks[odb]["t"]["to"]) if fn.dominates(odb, b)}
        der = derived_locals(fn, {od[1]["dest"][0]}, region)
        guarded = False
        for sb in region:
            bs = bool_switch(fn, sb)
            tt = fn.blocks[sb]["t"]
            if bs and fn.dominates(sb, pb) and sb != pb and tt["on"][0] != "k" and tt["on"][1][0] in der:
                # one edge must avoid the push
                if any(pb not in fn.reachable(e, avoid={sb}) for e in (bs[1], bs[2])):
                    guarded = True
        if not guarded:
            out.append(pb)
    return out


def reference_once_controls(ck):
    import core
    for nm, expect in (("pos_refs_per_occurrence", True), ("neg_refs_once", False), ("neg_refs_contains", False)):
        f = core.fixture_fn(nm)
        pushes = [bi for bi, t in f.calls() if call_name_matches(t, r"Vec::<T, A>::push$")]
        if len(pushes) != 1:
            raise CheckError("control %s: expected one push (fail closed)" % nm)
        ck.control("R6.8", nm, bool(unguarded_entry_pushes(f, pushes)), expect=expect)


def quad_reference_once_rule(ck, fn, ins):
    """R6.8 (RDFC-1.0 step 2.1): a quad is referenced once per blank node that is a component of it.  The per-component loop
    must therefore test the node's list (last element / membership) before pushing the quad, or the map must hold sets."""
    bad = unguarded_entry_pushes(fn, ins)
    if bad:
        t = fn.blocks[bad[0]]["t"]
        ck.bad("R6.8", "R6.8@relabel_with#quad-referenced-per-occurrence", "the quad is pushed to the blank node's list once per position "
               "holding that node, with no test on the list: `_:a <p> _:a` is referenced twice by _:a, its line is hashed twice and "
               "the issued identifiers differ from the W3C algorithm's (step 2.1 adds one reference per blank node)", "%s:%s" % (t["file"], t["line"]))
    else:
        ck.ok("R6.8", "relabel_with: the push into b2q[node] is guarded by a test on that list (one reference per blank node and quad)")


def _leaves(fn, operand, depth=0, seen=None):
    """syntactic leaves an arithmetic value is computed from: ('field', name) | ('len', field-or-type) | ('param', n) | ('const', v)"""
    seen = seen if seen is not None else set()
    if depth > 12:
        return {("unknown", "")}
    if operand[0] == "k":
        return {("const", str(operand[1].get("v")))}
    o = fn.origin(operand)
    if o[0] == "const":
        return {("const", str(o[1].get("v")))}
    if o[0] == "param":
        flds = [p.split(":")[1] for p in o[2] if ":" in p and p.split(":")[1]]
        return {("field", flds[-1])} if flds else {("param", o[1])}
    if o[0] == "rvalue":
        rv = o[1]
        if rv[0] in ("bin",):
            return _leaves(fn, rv[2], depth + 1, seen) | _leaves(fn, rv[3], depth + 1, seen)
        if rv[0] in ("cast",):
            return _leaves(fn, rv[2], depth + 1, seen)
        if rv[0] == "un":
            return _leaves(fn, rv[2], depth + 1, seen)
        return {("unknown", rv[0])}
    if o[0] == "call":
        t = o[1]
        nm = t["f"].get("res_name") or t["f"].get("name") or ""
        if re.search(r"::len$", nm) and t["args"]:
            a0 = t["args"][0]
            if a0[0] != "k" and len(a0[1]) == 1:
                sd = fn.single_def(a0[1][0])
                if sd and sd[2][0] == "ref" and len(sd[2][2]) == 1 and not (1 <= sd[2][2][0] <= fn.argc):
                    return {("len", fn.locals[sd[2][2][0]]["ty"])}
            oo = fn.origin(a0)
            named = lambda proj: [p.split(":")[1] for p in proj if ":" in p and p.split(":")[1] and not p.split(":")[1].isdigit()]
            if oo[0] == "param" and named(oo[2]):
                return {("len", named(oo[2])[-1])}
            if oo[0] == "place" and oo[1]:
                if named(oo[1][1:]):
                    return {("len", named(oo[1][1:])[-1])}
                return {("len", fn.locals[oo[1][0]]["ty"] if len(oo[1]) == 1 else "a component of " + fn.locals[oo[1][0]]["ty"])}
            if oo[0] == "call":
                return {("len", "result of " + (oo[1]["f"].get("res_name") or oo[1]["f"].get("name") or "?"))}
            return {("len", "?")}
        return {("call", nm)}
    if o[0] == "place" and o[1]:
        flds = [p.split(":")[1] for p in o[1][1:] if ":" in p and p.split(":")[1]]
        if flds:
            return {("field", flds[-1])}
    return {("unknown", o[0])}


def limits_rule(ck, facts):
    """R6.9 / R6.10: what the two safeguards of Hash N-Degree Quads are compared with."""
    fns = facts.find_fns(crate="sophia_c14n", name_re=r"C14nState::<'_, H, T>::hash_n_degree_quads$")
    if len(fns) != 1:
        ck.bad("R6.9", "R6.9@hash_n_degree_quads#anchor", "anchor-missing: hash_n_degree_quads (%d)" % len(fns))
        return
    fn = fns[0]
    cmps = []
    for bi in range(len(fn.blocks)):
        bs = bool_switch(fn, bi)
        if bs and bs[0][0] == "rvalue" and bs[0][1][0] == "bin" and bs[0][1][1] in ("Gt", "Lt", "Ge", "Le"):
            a, b = _leaves(fn, bs[0][1][2]), _leaves(fn, bs[0][1][3])
            cmps.append((bi, a, b))
    perm = [(bi, a, b) for bi, a, b in cmps if ("field", "permutation_limit") in a | b]
    depth = [(bi, a, b) for bi, a, b in cmps if ("field", "depth_factor") in a | b]
    if not perm or not depth:
        ck.bad("R6.9", "R6.9@hash_n_degree_quads#shape", "cannot find the comparisons with permutation_limit / depth_factor (%d/%d)" % (len(perm), len(depth)), fn.loc)
        return
    # R6.9: the quantity compared with the permutation limit
    for bi, a, b in perm:
        other = b if ("field", "permutation_limit") in a else a
        occ = [x for x in other if x[0] == "len" and "Vec<std::boxed::Box<str>>" in x[1]]
        if occ:
            ck.bad("R6.9", "R6.9@hash_n_degree_quads#limit-counts-occurrences", "the permutation limit (documented as a number of "
                   "undistinguishable blank nodes) is compared with the length of the Hn[hash] list, which holds one entry per "
                   "*occurrence* of a related node (R6.5): `_:n <p> _:m` stated in 7 named graphs gives [m,m,m,m,m,m,m] and fails "
                   "with ToxicGraph at the default limit 6 although one node has nothing to permute (and k! identical permutations are "
                   "enumerated below the limit)", "%s:%s" % (fn.file, fn.blocks[bi]["t"].get("line")))
        else:
            ck.ok("R6.9", "the permutation limit is compared with %s" % sorted(other))
    # R6.10: the bound of the recursion depth
    for bi, a, b in depth:
        bound = a if ("field", "depth_factor") in a else b
        sized = [x for x in bound if x[0] == "len"]
        absolute = [(bj, x, y) for bj, x, y in cmps if bj != bi and (("param", 4) in x and all(l[0] == "const" for l in y)
                                                                      or ("param", 4) in y and all(l[0] == "const" for l in x))]
        if sized and not absolute:
            ck.bad("R6.10", "R6.10@hash_n_degree_quads#depth-bound-grows-with-input", "the only bound on the recursion depth is depth_factor x "
                   "len(%s): with the default factor 1.0 it can never trigger before the recursion is as deep as the dataset has "
                   "blank nodes, so a plain chain `_:n0 <p> _:n1 . _:n1 <p> _:n2 . ...` of a few hundred (dev) / thousand (release) "
                   "nodes overflows the stack and aborts the process instead of returning a result or a C14nError" % sized[0][1],
                   "%s:%s" % (fn.file, fn.blocks[bi]["t"].get("line")))
        else:
            ck.ok("R6.10", "recursion depth bounded by %s%s" % (sorted(bound), " and an absolute bound" if absolute else ""))


WRITES = r"io::Write>?::write_all$|io::Write>?::write_fmt$|io::Write>?::write$"


def write_sites(fn, facts=None):
    """blocks of fn that write: a write call, or (with facts) a call that is handed a closure which writes
    (`quads.into_iter().try_for_each(|q| { w.write_all(..)?; .. })`)"""
    sites = [bi for bi, t in fn.calls() if call_name_matches(t, WRITES)]
    if facts is not None:
        writing = {u.id for u in facts.with_closures(fn)[1:] if any(call_name_matches(t, WRITES) for _, t in u.calls())}
        for bi, t in fn.calls():
            for a in t["args"]:
                if a[0] != "k":
                    o = fn.origin(a)
                    if o[0] == "agg" and o[1].get("def") in writing:
                        sites.append(bi)
    return sites


def consumed_writer_flushed(fn, facts=None):
    """(writes found, success is only reported after a flush of the writer): every construction of the Ok result is dominated by a
    flush; when the function builds no Ok of its own (its tail is `w.flush().map_err(..)`: the flush's own result is what is
    returned), no return is reachable from the last write without passing a flush or assigning an Err"""
    writes = write_sites(fn, facts)
    flushes = [bi for bi, t in fn.calls() if call_name_matches(t, r"io::Write>?::flush$")]
    oks = [bi for bi, si, dest, ops in blocks_with_agg(fn, "core::result::Result", "Ok") if dest == [0]]
    if writes and not oks and flushes:
        errs = {bi for bi, si, dest, ops in blocks_with_agg(fn, "core::result::Result", "Err") if dest == [0]}
        errs |= {bi for bi, t in fn.calls() if call_name_matches(t, r"ops::FromResidual(<.*>)?>?::from_residual$") and t["dest"] == [0]}
        ok = True
        for w in writes:
            nxt = fn.blocks[w]["t"].get("to")
            reach = fn.reachable(nxt, avoid=set(flushes) | errs) if nxt is not None else set()
            if any(r in reach for r in fn.ret_blocks()):
                ok = False
        return True, ok
    return bool(writes), bool(writes) and bool(oks) and all(any(fn.dominates(f_, o) for f_ in flushes) for o in oks)


def flush_rule(ck, facts):
    """R6.11: normalize_with takes the writer by value, so nobody else can flush it: Ok(()) may only be built after a flush
    (with a BufWriter an I/O error would otherwise surface in its drop, where it is swallowed)."""
    import core
    ck.control("R6.11", "pos_consumed_writer_not_flushed", consumed_writer_flushed(core.fixture_fn("pos_consumed_writer_not_flushed")) == (True, False))
    ck.control("R6.11", "neg_consumed_writer_flushed", consumed_writer_flushed(core.fixture_fn("neg_consumed_writer_flushed")) != (True, True), expect=False)
    fn = find(ck, facts, "R6.11", r"^rdfc10::normalize_with$", "normalize_with")
    if fn is None:
        return
    by_value = not fn.locals[fn.argc]["ty"].startswith("&") if fn.argc else False
    found, ok = consumed_writer_flushed(fn, facts)
    if not found:
        ck.bad("R6.11", "R6.11@normalize_with#anchor", "anchor-missing: the writes of the canonical document", fn.loc)
    elif ok or not by_value:
        ck.ok("R6.11", "normalize_with: the consumed writer is flushed before Ok(()) is built" if ok else "normalize_with borrows its writer")
    else:
        ck.bad("R6.11", "R6.11@normalize_with#writer-not-flushed", "normalize_with consumes its writer and returns Ok(()) without flushing it: with "
               "BufWriter::new(stdout()) an I/O error only surfaces in the BufWriter's drop, where it is swallowed - success is "
               "reported although the canonical document did not reach the sink", fn.loc)


def related_list_rule(ck, facts):
    """R6.5 (RDFC-1.0 Hash N-Degree Quads step 3.1.2): *every* occurrence of a related blank node is appended to Hn[hash]:
    from the computation of the related hash, the push into the map entry is reached on every path that continues the
    loop or leaves the function (a de-duplicating / conditional push changes the path, hence the hash)."""
    fns = facts.find_fns(crate="sophia_c14n", name_re=r"C14nState::<'_, H, T>::hash_n_degree_quads$")
    if len(fns) != 1:
        ck.bad("R6.5", "R6.5@hash_n_degree_quads#anchor", "anchor-missing: hash_n_degree_quads (%d)" % len(fns))
        return
    fn = fns[0]
    hs = [(bi, t) for bi, t in fn.calls() if call_name_matches(t, r"::hash_related_bnode$")]
    pushes = []
    for bi, t in fn.calls():
        if call_name_matches(t, r"Vec::<T, A>::push$|Vec::<T>::push$") and comes_from_call(fn, t["args"][0], r"Entry::<'a, K, V, A>::or_default$|Entry::<'a, K, V, A>::or_insert(_with)?$|::or_default$"):
            pushes.append(bi)
    if len(hs) != 1 or not pushes:
        ck.bad("R6.5", "R6.5@hash_n_degree_quads#shape", "expected one hash_related_bnode call and a push into the Hn entry "
               "(found %d / %d)" % (len(hs), len(pushes)), fn.loc)
        return
    hb, ht = hs[0]
    reach = fn.reachable(ht["to"], avoid=set(pushes))
    escapes = [bi for bi in reach if fn.blocks[bi]["t"]["t"] == "ret"
               or (fn.blocks[bi]["t"]["t"] == "call" and call_name_matches(fn.blocks[bi]["t"], r"iter::Iterator>?::next$|Iterator>::next$"))]
    if escapes:
        ck.bad("R6.5", "R6.5@hash_n_degree_quads#conditional-append",
               "after computing the hash of a related blank node the loop can continue (bb%d) without appending the node to "
               "Hn[hash]: RDFC-1.0 appends every occurrence (step 3.1.2), the permuted path and the N-degree hash change otherwise"
               % sorted(escapes)[0], "%s:%s" % (ht["file"], ht["line"]))
    else:
        ck.ok("R6.5", "hash_n_degree_quads: every related blank node occurrence is appended to Hn[hash] (push post-dominates the hash)")


def issuer_copy_rule(ck, facts):
    """R6.6 (RDFC-1.0 Hash N-Degree Quads step 5.4.2): every permutation works on its *own* copy of the issuer: in the
    closure evaluated per permutation, each `BnodeIssuer::issue` call mutates an issuer obtained by `clone()` inside that same
    closure invocation, never an issuer captured from outside (identifiers issued while trying one permutation would leak
    into the next ones, and the chosen path would depend on the order in which permutations are tried)."""
    from mirutil import root_local
    fns = facts.find_fns(crate="sophia_c14n", name_re=r"C14nState::<'_, H, T>::hash_n_degree_quads$")
    if len(fns) != 1:
        ck.bad("R6.6", "R6.6@hash_n_degree_quads#anchor", "anchor-missing (%d)" % len(fns))
        return
    fn = fns[0]
    perm_closures = []
    for bi, t in fn.calls():
        if call_name_matches(t, r"for_each_permutation_of$|_permutations::\w+$") and len(t["args"]) >= 2:
            clo = fn.origin(t["args"][-1])
            if clo[0] == "agg" and clo[1].get("k") == "closure":
                perm_closures.append(facts.fns.get(clo[1]["def"]))
    perm_closures = [c for c in perm_closures if c is not None]
    if len(perm_closures) != 1:
        ck.bad("R6.6", "R6.6@hash_n_degree_quads#closure", "expected one per-permutation closure (found %d)" % len(perm_closures), fn.loc)
        return
    c = perm_closures[0]
    issues = [(bi, t) for bi, t in c.calls() if call_name_matches(t, r"BnodeIssuer::issue$")]
    if not issues:
        ck.bad("R6.6", "R6.6@hash_n_degree_quads#no-issue", "the per-permutation closure issues no identifier", c.loc)
        return
    bad = []
    for bi, t in issues:
        l, path = root_local(c, t["args"][0])
        # a local of the closure body (created anew at every invocation), first initialised by `clone()`; not a capture
        defs = c.defs().get(l, []) if l is not None else []
        fresh = l is not None and l > c.argc and any(rv[0] == "call" and call_name_matches(rv[1], r"clone::Clone>?::clone$")
                                                      for _, _, rv in defs)
        if not fresh:
            bad.append("%s:%s" % (t["file"], t["line"]))
    if bad:
        ck.bad("R6.6", "R6.6@hash_n_degree_quads#shared-issuer", "the per-permutation closure issues identifiers on an issuer that is not a "
               "copy made for this permutation (captured from outside): temporary identifiers leak from one permutation into the next",
               bad[0])
    else:
        ck.ok("R6.6", "each permutation issues identifiers on its own clone of the issuer (%d issue sites)" % len(issues))


def step52_rule(ck, facts):
    """R6.7 (RDFC-1.0 step 5.2): in the loop over the blank nodes of one hash group, Hash N-Degree Quads is computed for every
    node, except possibly those for which a *canonical* identifier has already been issued (step 5.2.1).  A node skipped on
    any other ground (e.g. because a temporary issuer of a previous node has reached it) makes the numbering depend on the
    order in which the group is walked, i.e. on the input labels."""
    fn = find(ck, facts, "R6.7", r"^rdfc10::relabel_with$", "relabel_with")
    if fn is None:
        return
    hs = [(bi, t) for bi, t in fn.calls() if call_name_matches(t, r"::hash_n_degree_quads$")]
    if len(hs) != 1:
        ck.bad("R6.7", "R6.7@relabel_with#shape", "expected one call of hash_n_degree_quads in relabel_with (found %d)" % len(hs), fn.loc)
        return
    hb, ht = hs[0]
    # the innermost loop head dominating the call
    heads = [bi for bi, t in fn.calls() if call_name_matches(t, r"iter::Iterator>?::next$|Iterator>::next$") and fn.dominates(bi, hb)
             and bi in fn.reachable(ht["to"])]
    if not heads:
        ck.bad("R6.7", "R6.7@relabel_with#loop", "hash_n_degree_quads is not called in a loop over the hash group", fn.loc)
        return
    head = max(heads, key=lambda b: len(fn.dominators().get(b, ())))
    # from the point where an element of the group has been obtained (the Some edge of the loop's `next`)
    some_t = None
    for cand in sorted(fn.reachable(fn.blocks[head]["t"]["to"])):
        tt = fn.blocks[cand]["t"]
        if tt["t"] == "switch" and (tt.get("variants") or {}).get("enum") == "core::option::Option":
            o = fn.origin(tt["on"])
            if o[0] == "rvalue" and o[1][0] == "discr" and o[1][1] == fn.blocks[head]["t"]["dest"]:
                some_t = dict((v, b2) for v, b2 in tt["vals"]).get("1", tt["else"])
                break
    if some_t is None:
        ck.bad("R6.7", "R6.7@relabel_with#loop-shape", "cannot find the Some edge of the loop over the hash group", fn.loc)
        return
    body = fn.reachable(some_t, avoid={hb})
    if head not in body:
        ck.ok("R6.7", "relabel_with step 5.2: hash_n_degree_quads is computed for every node of the group (no skip)")
        return
    # there is a way round the call: every decision on it must be a test of the canonical issuer
    bad = None
    for b in sorted(body):
        if not fn.dominates(head, b) or b == head:
            continue
        bs = bool_switch(fn, b)
        if bs is None:
            continue
        if hb in fn.reachable(bs[1], avoid={head}) and hb in fn.reachable(bs[2], avoid={head}):
            continue            # not the deciding branch (both edges still reach the call in this iteration)
        o = bs[0]
        ok = False
        if o[0] == "call" and call_name_matches(o[1], r"::(contains_key|get|is_some|is_none)$"):
            recv = provenance(fn, o[1]["args"][0], transparent=())[-1]
            path = recv[2] if recv[0] == "param" else (recv[1][1:] if recv[0] == "place" else [])
            ok = any(str(p).endswith(":canonical") for p in path) and any(str(p).endswith(":issued") for p in path)
        if not ok:
            bad = b
    if bad is not None:
        t = fn.blocks[bad]["t"]
        ck.bad("R6.7", "R6.7@relabel_with#foreign-skip", "a node of a hash group can be skipped (no hash_n_degree_quads) on a condition that is "
               "not `a canonical identifier has been issued for it` (RDFC-1.0 step 5.2.1): the canonical numbering then depends on the "
               "order in which the group is walked", "%s:%s" % (fn.file, t.get("line")))
    else:
        ck.ok("R6.7", "relabel_with step 5.2: a node is skipped only when a canonical identifier has been issued for it")


def run(ck, facts, tier):
    facts.require_crates(["sophia_c14n"])
    step52_rule(ck, facts)
    related_list_rule(ck, facts)
    issuer_copy_rule(ck, facts)
    escape_rule(ck, facts)
    safeguards_rule(ck, facts)
    reference_once_controls(ck)
    unsupported_rule(ck, facts)
    flush_rule(ck, facts)
    limits_rule(ck, facts)
    fns = [f for f in facts.fns.values() if f.crate == "sophia_c14n" and re.search(r"c14n/src/(rdfc10|_cnq|_permutations|hash)\.rs$", f.file)]
    sites = []
    for f in sorted(fns, key=lambda x: x.id):
        sites += panics.sites_of(f)
    panics.controls(ck, "R6.4")
    panics.classify(facts, sites, PANIC_TABLE)
    for s in sites:
        if s.kind == "validator-call":
            continue
        if s.kind == "unwrap" and s.status == "unaudited":
            t = s.fn.blocks[s.bi]["t"]
            g = panics.accessor_guarded(s.fn, s, t)
        if s.status in ("auto", "audited"):
            ck.ok("R6.4", s.key, s.reason)
        elif s.kind == "assert" and s.what.startswith("overflow"):
            ck.ok("R6.4", s.key, "arithmetic check (listed, not armed)", nontrivial=False)
        else:
            ck.bad("R6.4", "R6.4@" + s.key, "panic site in the canonicalisation code is neither guarded nor audited: %s %s (%s)" % (s.kind, s.what, s.detail), s.loc)
    ck.floor("R6.4", "canonicalisation functions", len(fns), 30)
    ck.assumptions = ["the hash functions (sha2 crate) are a trusted base", "algorithmic equality with RDFC-1.0 is not decided"]
    ck.trusted = ["rustc MIR", "the escape table of RDF 1.2 canonical N-Quads held in rules/c06.py", "audited panic table in rules/c06.py"]
