"""A.1 role propagation: a type-like abstract interpretation of one function body (plus the closures it creates).

Abstract values:
  ("r", x)            a term / term index / matcher playing role x in {"g","s","p","o"}
  ("c", "ZERO"|"MAX") the two index constants
  ("tup", [v...])     arrays, tuples, ranges (lo, hi)
  ("iter", v)         an iterator whose items have value v;  ("iter", "EMPTY") for iter::empty()
  ("clo", def, [v..]) a closure with its captured values
  None                unknown (top)
No concrete values are computed and no path conditions are solved.  Option/Result wrappers are transparent
(Some(x), Ok(x), `?`, unwrap -> x)."""
import re
from mirutil import call_name_matches

TOP = None


def join(a, b):
    if a == b:
        return a
    if a is None:
        return b
    if b is None:
        return a
    if a[0] == "tup" and b[0] == "tup" and len(a[1]) == len(b[1]):
        return ("tup", [join(x, y) for x, y in zip(a[1], b[1])])
    if a[0] == "iter" and b[0] == "iter":
        if a[1] == "EMPTY":
            return b
        if b[1] == "EMPTY":
            return a
        j = join(a[1], b[1])
        if j == "CONFLICT" or a[2:] != b[2:]:
            return "CONFLICT"
        return ("iter", j) + tuple(a[2:])
    return "CONFLICT"


def range_bound(perm, rng):
    """For `lo..=hi` over keys ordered by `perm`: the set of roles fixed by the range, or None if the bounds do not cover
    every key with that prefix.  Rule: a leading run of positions with lo == hi == that position's own role; then lo must be
    ZERO and hi must be MAX at every remaining position.  (An earlier version stopped at the first free *term* position,
    relying on SimpleTermIndex never issuing MAX to a term; GenericLightDataset/GenericFastDataset are generic over any
    TermIndex, whose contract reserves nothing, and `[g,MAX,MAX,ZERO]` lost quads with such an index — fixed in 70ac9a3.)"""
    if not rng or rng[0] != "tup" or len(rng[1]) != 2:
        return None
    lo, hi = rng[1]
    if not lo or not hi or lo[0] != "tup" or hi[0] != "tup" or len(lo[1]) != len(perm) or len(hi[1]) != len(perm):
        return None
    k = 0
    while k < len(perm) and lo[1][k] == ("r", perm[k]) and hi[1][k] == ("r", perm[k]):
        k += 1
    for i in range(k, len(perm)):
        if lo[1][i] != ("c", "ZERO") or hi[1][i] != ("c", "MAX"):
            return None
    return set(perm[:k])


UNARY_PRESERVING = (
    r"TermIndex>?::ensure_index$", r"TermIndex>?::get_index$", r"GraphNameIndex>?::get_graph_name_index$",
    r"TermIndex>?::get_term$", r"GraphNameIndex>?::get_graph_name$", r"Term>?::borrow_term$", r"Option::<T>::unwrap$",
    r"Option::<T>::copied$", r"Option::<&T>::copied$", r"Option::<&T>::cloned$", r"Option::<T>::as_ref$", r"ops::Try>?::branch$",
    r"Option::<T>::unwrap_unchecked$", r"clone::Clone>?::clone$", r"convert::Into<U>>?::into$", r"convert::From<T>>?::from$",
    r"Box::<T>::new$", r"iter::IntoIterator>?::into_iter$", r"Option::<T>::expect$", r"Result::<T, E>::unwrap$",
    r"Iterator>?::by_ref$", r"iter::Iterator::peekable$", r"ops::Deref>?::deref$", r"borrow::Borrow>?::borrow$",
)
# (regex, index of the argument whose role the result keeps)  — for `x.foo(y)` forms where the role comes from y
ARG1_PRESERVING = (r"TermIndex>?::ensure_index$", r"TermIndex>?::get_index$", r"GraphNameIndex>?::get_graph_name_index$",
                   r"TermIndex>?::get_term$", r"GraphNameIndex>?::get_graph_name$")
ARG0_PRESERVING = (r"TermMatcher>?::constant$", r"GraphNameMatcher>?::constant$", r"TermMatcher>?::gn$", r"TermMatcher>?::matcher_ref$",
                   r"GraphNameMatcher>?::matcher_ref$")


class Analysis:
    def __init__(self, facts, perms=None):
        self.facts = facts
        self.perms = perms or {}          # field name -> tuple of roles (from `insert`)
        self.events = []                  # (kind, fn, block, payload)
        self._clo_cache = {}

    # ------------------------------------------------------------------ evaluation of one body
    def run(self, fn, params, depth=0):
        """params: {local: value}.  Returns (env, values assigned to _0)"""
        env = dict(params)
        rets = []
        conflicts = set()

        def setv(l, v):
            if v is None or l in conflicts:
                return False
            old = env.get(l)
            j = join(old, v)
            if j == "CONFLICT":
                conflicts.add(l)
                env[l] = None
                return True
            if j != old:
                env[l] = j
                return True
            return False

        def place_val(p):
            v = env.get(p[0])
            for pr in p[1:]:
                if v is None:
                    return None
                if pr == "*" or pr.startswith("d") or pr == "o":
                    continue
                m = re.match(r"f(\d+):", pr)
                if m:
                    i = int(m.group(1))
                    if v[0] == "tup":
                        v = v[1][i] if i < len(v[1]) else None
                    elif v[0] == "clo":
                        v = v[2][i] if i < len(v[2]) else None
                    else:
                        # field 0 of a transparent wrapper (Some(x).0, Ok(x).0, Box, RangeInclusive handled as tup)
                        v = v if i == 0 else None
                    continue
                m = re.match(r"c(\d+):\d+:(\d)", pr)
                if m:
                    i = int(m.group(1))
                    if v[0] == "tup" and m.group(2) == "0":
                        v = v[1][i] if i < len(v[1]) else None
                    else:
                        v = None
                    continue
                m = re.match(r"i(\d+)$", pr)
                if m:
                    idx = self.const_int(fn, int(m.group(1)))
                    if v[0] == "tup" and idx is not None and idx < len(v[1]):
                        v = v[1][idx]
                    else:
                        v = None
                    continue
                m = re.match(r"s(\d+):(\d+):(\d)", pr)
                if m and v[0] == "tup":
                    a, b, fe = int(m.group(1)), int(m.group(2)), m.group(3)
                    v = ("tup", v[1][a:len(v[1]) - b] if fe == "1" else v[1][a:b])
                    continue
                v = None
            return v

        def op_val(op):
            if op[0] == "k":
                c = op[1]
                frm = c.get("from") or ""
                if frm.endswith("index::Index::ZERO"):
                    return ("c", "ZERO")
                if frm.endswith("index::Index::MAX"):
                    return ("c", "MAX")
                if c.get("kind") == "fn":
                    return ("fn", c.get("def"))
                return None
            return place_val(op[1])

        changed = True
        rounds = 0
        order = sorted(fn.reachable(0, unwind=False))
        while changed and rounds < 12:
            changed = False
            rounds += 1
            for bi in order:
                b = fn.blocks[bi]
                for s in b["s"]:
                    if s[0] != "=":
                        continue
                    dest, rv = s[1], s[2]
                    v = None
                    k = rv[0]
                    if k == "use":
                        v = op_val(rv[1])
                    elif k in ("ref", "rawptr"):
                        v = place_val(rv[2])
                    elif k == "cfd":
                        v = place_val(rv[1])
                    elif k == "cast":
                        v = op_val(rv[2])
                    elif k == "agg":
                        kd = rv[1]
                        vals = [op_val(o) for o in rv[2]]
                        if kd["k"] in ("array", "tuple"):
                            v = ("tup", vals)
                        elif kd["k"] == "closure":
                            v = ("clo", kd["def"], vals)
                        elif kd["k"] == "adt":
                            if kd.get("vname") in ("Some", "Ok") and len(vals) == 1:
                                v = vals[0]
                            elif kd.get("def", "").endswith(("RangeInclusive", "ops::range::Range")):
                                v = ("tup", vals)
                            elif len(vals) == 1:
                                v = vals[0]           # newtype
                            else:
                                v = ("tup", vals) if vals else None
                    elif k == "repeat":
                        v = None
                    if len(dest) == 1:
                        if dest[0] == 0 and v is not None:
                            rets.append((bi, v))
                        changed |= setv(dest[0], v)
                    else:
                        # assignment into a field of a tuple local: rebuild
                        m = re.match(r"f(\d+):", dest[1]) if len(dest) == 2 else None
                        if m and v is not None:
                            cur = env.get(dest[0])
                            i = int(m.group(1))
                            lst = list(cur[1]) if cur and cur[0] == "tup" else []
                            while len(lst) <= i:
                                lst.append(None)
                            lst[i] = join(lst[i], v) if join(lst[i], v) != "CONFLICT" else None
                            changed |= setv(dest[0], ("tup", lst))
                t = b["t"]
                if t["t"] == "call" and len(t["dest"]) == 1:
                    args = [op_val(a) for a in t["args"]]
                    v = self.call_val(fn, bi, t, args, depth)
                    if t["dest"][0] == 0 and v is not None:
                        rets.append((bi, v))
                    changed |= setv(t["dest"][0], v)
        return env, rets

    def const_int(self, fn, local):
        sd = fn.single_def(local)
        if sd and sd[2][0] == "use" and sd[2][1][0] == "k" and sd[2][1][1].get("kind") == "int":
            return int(sd[2][1][1]["v"])
        return None

    # ------------------------------------------------------------------ closures
    def apply(self, clo, args, depth):
        if clo is None:
            return None
        if clo[0] == "fn":
            return args[0] if args else None      # function items used as mappers are treated as role-preserving (Ok, Some, ...)
        if clo[0] != "clo":
            return None
        cf = self.facts.fns.get(clo[1])
        if cf is None or depth > 6:
            return None
        params = {1: ("clo", clo[1], clo[2])}
        for i, a in enumerate(args):
            params[2 + i] = a
        env, rets = self.run(cf, params, depth + 1)
        out = None
        for _, v in rets:
            j = join(out, v)
            out = None if j == "CONFLICT" else j
            if j == "CONFLICT":
                self.events.append(("conflict", cf, None, "closure returns values with different roles"))
                return None
        return out

    # ------------------------------------------------------------------ calls
    def field_of_self(self, fn, op):
        """name of the field of *self an operand refers to (through refs)"""
        from mirutil import root_local
        l, path = root_local(fn, op)
        if l == 1:
            names = [p.split(":", 1)[1] for p in path if re.match(r"f\d+:", p)]
            return names[0] if names else None
        return None

    def call_val(self, fn, bi, t, args, depth):
        f = t["f"]
        name = (f.get("res_name") or f.get("name") or "")
        nm = f.get("name") or ""

        def m(p):
            return call_name_matches(t, p)
        if any(m(p) for p in ARG1_PRESERVING):
            return args[1] if len(args) > 1 else None
        if any(m(p) for p in ARG0_PRESERVING):
            return args[0] if args else None
        if m(r"GraphNameIndex>?::get_default_graph_index$"):
            return ("r", "g")
        if m(r"Option::<T>::map$|Result::<T, E>::map$|Option::<T>::and_then$"):
            return self.apply(args[1], [args[0]], depth)
        if m(r"Option::<T>::is_none_or$|Option::<T>::is_some_and$"):
            self.apply(args[1], [args[0]], depth)
            return None
        if m(r"BTreeSet::<T, A>::(insert|remove|contains)$|BTreeSet::<T>::(insert|remove|contains)$"):
            fld = self.field_of_self(fn, t["args"][0])
            self.events.append((nm.split("::")[-1], fn, bi, dict(field=fld, value=args[1], term=t)))
            return None
        if m(r"BTreeSet::<T, A>::range$|BTreeSet::<T>::range$"):
            fld = self.field_of_self(fn, t["args"][0])
            self.events.append(("range", fn, bi, dict(field=fld, value=args[1], term=t)))
            perm = self.perms.get(fld)
            bound = range_bound(perm, args[1]) if perm else None
            if perm and bound is not None:
                return ("iter", ("tup", [("r", x) for x in perm]), frozenset(bound), frozenset())
            return None
        if m(r"BTreeSet::<T, A>::iter$|BTreeSet::<T>::iter$"):
            fld = self.field_of_self(fn, t["args"][0])
            self.events.append(("iter", fn, bi, dict(field=fld, term=t)))
            perm = self.perms.get(fld)
            return ("iter", ("tup", [("r", x) for x in perm]), frozenset(), frozenset()) if perm else None
        if m(r"ops::RangeInclusive::<Idx>::new$"):
            return ("tup", [args[0], args[1]])
        if m(r"iter::Iterator::map$"):
            it = args[0]
            if it and it[0] == "iter" and it[1] != "EMPTY":
                return ("iter", self.apply(args[1], [it[1]], depth)) + tuple(it[2:])
            return it
        if m(r"iter::Iterator::filter$"):
            it = args[0]
            if it and it[0] == "iter" and it[1] != "EMPTY":
                self.events.append(("filter", fn, bi, dict(item=it[1], term=t)))
                n0 = len(self.events)
                self.apply(args[1], [it[1]], depth)
                roles_f = set()
                for e in self.events[n0:]:
                    if e[0] == "matches":
                        mv, vv = e[3]["matcher"], e[3]["value"]
                        if mv and vv and mv[0] == "r" and mv == vv:
                            roles_f.add(mv[1])
                if len(it) >= 4:
                    return ("iter", it[1], it[2], frozenset(set(it[3]) | roles_f))
            return it
        if m(r"array::<impl \[T; N\]>::map$"):
            a = args[0]
            if a and a[0] == "tup":
                return ("tup", [self.apply(args[1], [x], depth) for x in a[1]])
            return None
        if m(r"iter::once$|iter::sources::once::once$"):
            return ("iter", args[0], "ONCE", frozenset())
        if m(r"iter::empty$|iter::sources::empty::empty$"):
            return ("iter", "EMPTY")
        if m(r"TermMatcher>?::matches$|GraphNameMatcher>?::matches$"):
            self.events.append(("matches", fn, bi, dict(matcher=args[0], value=args[1], term=t)))
            return None
        mm = re.search(r"(Gspo|Bcd|Cd|Spo|Bc)MatchingIterator::<.*>::boxed$", nm)
        if mm:
            kind = mm.group(1)
            it = args[1]
            item = it[1] if it and it[0] == "iter" else None
            nmatch = {"Gspo": 4, "Bcd": 3, "Cd": 2, "Spo": 3, "Bc": 2}[kind]
            matchers = args[2:2 + nmatch]
            clo = args[2 + nmatch] if len(args) > 2 + nmatch else None
            out = None
            if item and item != "EMPTY" and item[0] == "tup":
                if clo is not None:
                    out = self.apply(clo, [item], depth)
                else:
                    out = item
            self.events.append(("boxed", fn, bi, dict(kind=kind, item=item, matchers=matchers, out=out, term=t)))
            # the iterator yields (g, [s, p, o]) built from `out` = [g, s, p, o]  (datasets) or [s, p, o] (graphs)
            if out and out[0] == "tup":
                bound = it[2] if it and len(it) >= 4 else frozenset()
                filt = set(it[3]) if it and len(it) >= 4 else set()
                # matcher k is applied to position (len - nmatch + k) of the items
                if item and item[0] == "tup":
                    pos = item[1][len(item[1]) - nmatch:]
                    if len(matchers) == nmatch and all(mv is not None and mv == pv and mv[0] == "r" for mv, pv in zip(matchers, pos)):
                        filt |= {mv[1] for mv in matchers}
                if kind in ("Gspo", "Bcd", "Cd") and len(out[1]) == 4:
                    return ("iter", ("tup", [out[1][0], ("tup", out[1][1:])]), bound, frozenset(filt))
                return ("iter", out, bound, frozenset(filt))
            return None
        if any(m(p) for p in UNARY_PRESERVING):
            return args[0] if args else None
        # calling a closure value
        if m(r"ops::Fn(Mut|Once)?<.*>>?::call(_mut|_once)?$|ops::Fn(Mut|Once)?::call(_mut|_once)?$"):
            a = args[1] if len(args) > 1 else None
            return self.apply(args[0], list(a[1]) if a and a[0] == "tup" else [a], depth)
        return None
