"""C07 — isomorphism test: blank nodes equal at every depth, early exits, symmetric treatment of both arguments."""
import re
from core import CheckError
from mirutil import (is_identity_rewrap, call_name_matches, provenance, bool_switch, edge_dominates, enumerate_paths, blocks_with_agg,
                     comes_from_call, TRANSPARENT)

LEVEL = "other"
EXPLANATION = (
    "Decides structural clauses of C07 from the MIR of sophia_isomorphism. (R7.1) every comparison impl of IsoTerm "
    "(PartialEq, PartialOrd, Ord) and the function they share never hands a possibly-quoted-triple term to the "
    "label-sensitive Term::eq / Term::cmp: such a call is reachable only on a path where the kinds are not both Triple and "
    "not both BlankNode, and the Triple/Triple case recurses component-wise through the blank-blind comparison itself. "
    "(R7.5) two atomic ground terms of the same kind are always compared as whole terms (Term::cmp/eq of the wrapped "
    "terms on every path). (R7.2) in isomorphic_datasets / isomorphic_graphs the size test, the pairwise test (after sorting both sides with the "
    "same order) and the blank-node-count test each lead to Ok(false); every helper is applied to both arguments the same "
    "number of times (structural part of symmetry); errors of the first/second argument map to Source/Sink; the final "
    "verdict compares the equivalence classes of both sides. (R7.3) the graph-name comparison eq_gn returns true only for "
    "(None,None) and (Some,Some) with equal terms; the pairwise comparators compare all positions. (R7.4) the colour of a "
    "node combines its quads with a wrapping sum (commutative and, unlike XOR, not self-cancelling) over an ordered set of quad "
    "indexes, with no dedup / position-dependent step. (R7.8) the refinement loop has an exit on a counter that decreases by a "
    "constant every round. (R7.9) duplicates yielded by a container are removed with an exact (label-sensitive) comparison "
    "before sizes are compared. NOT decided: no-false-negative under hash collisions; that the refinement loop "
    "distinguishes exactly the non-automorphic nodes.")


def find(ck, facts, rule, name_re, what):
    fns = facts.find_fns(crate="sophia_isomorphism", name_re=name_re)
    if len(fns) != 1:
        ck.bad(rule, "%s@%s#anchor" % (rule, what), "anchor-missing: %s (%d)" % (what, len(fns)))
        return None
    return fns[0]


def label_sensitive_calls(fn):
    return [(bi, t) for bi, t in fn.calls() if call_name_matches(t, r"Term>?::(eq|cmp)$")]


def iso_term_rule(ck, facts):
    # all comparison impls of IsoTerm + helper functions they call inside the crate
    impls = [i for i in facts.impls if i["crate"] == "sophia_isomorphism" and (i.get("self_adt") or "").endswith("iso_term::IsoTerm")
             and i.get("trait") in ("core::cmp::PartialEq", "core::cmp::PartialOrd", "core::cmp::Ord")]
    if len(impls) < 3:
        ck.bad("R7.1", "R7.1@IsoTerm#anchor", "anchor-missing: comparison impls of IsoTerm (%d)" % len(impls))
        return
    todo = []
    for i in impls:
        for it in i["items"]:
            f = facts.fns.get(it["def"])
            if f is not None:
                todo.append(f)
    seen = set()
    analysed = 0
    while todo:
        fn = todo.pop()
        if fn.id in seen:
            continue
        seen.add(fn.id)
        for f in facts.with_closures(fn):
            for bi, t in f.calls():
                res = t["f"].get("res")
                if res and res in facts.fns and facts.fns[res].crate == "sophia_isomorphism" and "iso_term" in facts.fns[res].file:
                    todo.append(facts.fns[res])
            lsc = label_sensitive_calls(f)
            for bi, t in lsc:
                analysed += 1
                # the receiver must be the *inner* term (self.0): a label-sensitive comparison of raw terms
                # it must be unreachable when both kinds are Triple, and when both are BlankNode
                key = "R7.1@%s#%s" % (f.name, t["f"]["name"].split("::")[-1])
                def reachable_assuming(kind):
                    """is block bi reachable if every `match kind()` takes its `kind` arm?"""
                    seenb = set()
                    st = [0]
                    while st:
                        b = st.pop()
                        if b in seenb:
                            continue
                        seenb.add(b)
                        tt = f.blocks[b]["t"]
                        var = tt.get("variants") if tt["t"] == "switch" else None
                        if var and var["enum"].endswith("term::TermKind"):
                            names = var["names"]
                            tgt = None
                            for v, tb in tt["vals"]:
                                if names.get(v) == kind:
                                    tgt = tb
                            st.append(tgt if tgt is not None else tt["else"])
                            continue
                        st.extend(f.succs(b))
                    return bi in seenb
                guarded_triple = not reachable_assuming("Triple")
                guarded_blank = not reachable_assuming("BlankNode")
                if guarded_triple and guarded_blank:
                    ck.ok("R7.1", "%s: label-sensitive %s unreachable when both sides are quoted triples or both blank nodes" % (f.name, t["f"]["name"].split("::")[-1]))
                elif guarded_triple:
                    ck.bad("R7.1", key + "#blank-falls-through", "%s compares two blank nodes by label" % f.name, "%s:%s" % (t["file"], t["line"]))
                else:
                    ck.bad("R7.1", key + "#triple-falls-through", "%s hands terms that may both be quoted triples to the label-sensitive %s: blank "
                           "nodes nested in quoted triples are compared by label, so a renamed copy is reported as different"
                           % (f.name, t["f"]["name"]), "%s:%s" % (t["file"], t["line"]))
    ck.floor("R7.1", "label-sensitive comparisons inside IsoTerm's impls", analysed, 1)
    # R7.5: two ground atomic terms of the same kind are compared *as whole terms*: with both kinds Iri / Literal / Variable,
    # every path of the blank-blind comparison passes through Term::cmp / Term::eq on the wrapped terms (an arm that compares
    # only some components - e.g. lexical form and tag but not the datatype - makes different ground terms "equal")
    for f in [x for x in facts.fns.values() if x.crate == "sophia_isomorphism" and "iso_term" in x.file and x.kind != "Closure"]:
        lsc = label_sensitive_calls(f)
        if not lsc or not any((fb["t"].get("variants") or {}).get("enum", "").endswith("term::TermKind") for fb in f.blocks if fb["t"]["t"] == "switch"):
            continue
        full = {bi for bi, _ in lsc}
        for kind in ("Iri", "Literal", "Variable"):
            seenb, st, escapes = set(), [0], False
            while st:
                b = st.pop()
                if b in seenb or b in full:
                    continue
                seenb.add(b)
                tt = f.blocks[b]["t"]
                if tt["t"] == "ret":
                    escapes = True
                var = tt.get("variants") if tt["t"] == "switch" else None
                if var and var["enum"].endswith("term::TermKind"):
                    tgt = None
                    for v, tb in tt["vals"]:
                        if var["names"].get(v) == kind:
                            tgt = tb
                    st.append(tgt if tgt is not None else tt["else"])
                    continue
                st.extend(f.succs(b))
            if escapes:
                ck.bad("R7.5", "R7.5@%s#%s-not-whole-term" % (f.name, kind), "%s can answer for two %s terms without comparing them as whole terms "
                       "(Term::cmp / Term::eq of the wrapped terms): ground terms differing in a component it does not read would be "
                       "identified" % (f.name, kind), f.loc)
            else:
                ck.ok("R7.5", "%s: two %s terms are compared as whole terms" % (f.name, kind))
    # the Triple/Triple case recurses through the blank-blind comparison
    rec = [f for f in facts.fns.values() if f.crate == "sophia_isomorphism" and "iso_term" in f.file and
           any((t["f"].get("res") == f.id) for _, t in f.calls()) or
           (f.crate == "sophia_isomorphism" and "iso_term" in f.file and any(t["f"].get("res") in {c.id for c in facts.with_closures(f)} or
            (t["f"].get("res") == f.id) for c in facts.with_closures(f) for _, t in c.calls()))]
    rec = [f for f in rec if any(call_name_matches(t, r"Term>?::triple$") for c in facts.with_closures(f) for _, t in c.calls())]
    if rec:
        ck.ok("R7.1", "quoted triples are compared component-wise by %s (recursive, blank-blind)" % rec[0].name)
    else:
        ck.bad("R7.1", "R7.1@IsoTerm#no-recursion", "no blank-blind recursive comparison of quoted-triple components found", None)


def eq_gn_rule(ck, facts):
    fn = find(ck, facts, "R7.3", r"iso_term::eq_gn$", "eq_gn")
    if fn is None:
        return
    def stm(st):
        if st[0] == "=" and st[1] == [0] and st[2][0] == "use" and st[2][1][0] == "k":
            return "ret:%s" % (st[2][1][1].get("v") == "1")
        return None

    def tok(t):
        if t["dest"] == [0]:
            return "ret:call:" + (t["f"].get("name") or "").split("::")[-1]
        return None
    try:
        paths = enumerate_paths(fn, 0, tok, on_stmt=stm)
    except CheckError as e:
        ck.bad("R7.3", "R7.3@eq_gn#shape", "eq_gn is not a plain match on the pair of graph names (%s)" % e, fn.loc)
        return
    table = {}
    for conds, toks in paths:
        opts = tuple(o for d, o, s in conds if o in ("Some", "None"))
        res = [x for x in toks if x.startswith("ret:")]
        table[opts] = res[-1] if res else "?"
    want_true = {("None", "None")}
    ok = True
    for opts, res in table.items():
        if len(opts) != 2:
            ok = False
        elif opts == ("None", "None"):
            ok &= res == "ret:True"
        elif opts == ("Some", "Some"):
            ok &= res.startswith("ret:call:eq")
        else:
            ok &= res == "ret:False"
    if ok and len(table) >= 3:
        ck.ok("R7.3", "eq_gn: (None,None) -> true, (Some,Some) -> t1 == t2, mixed -> false")
    else:
        ck.bad("R7.3", "R7.3@eq_gn#table", "eq_gn's decision table is %s; a default-graph statement must never equal a named-graph one" % sorted(table.items()), fn.loc)
    for name, n in (("eq_triples", 3), ("eq_quads", 4), ("cmp_quads", 4)):
        fns = facts.find_fns(crate="sophia_isomorphism", name_re=r"iso_term::%s$" % name)
        if not fns:
            continue
        f = fns[0]
        eqs = [t for c in facts.with_closures(f) for _, t in c.calls() if call_name_matches(t, r"PartialEq<.*>>::eq$|iso_term::eq_gn$|iso_term::eq_triples$")]
        if len(eqs) >= (3 if n == 3 else 2):
            ck.ok("R7.3", "%s compares every position (%d comparisons)" % (name, len(eqs)), nontrivial=False)
        else:
            ck.bad("R7.3", "R7.3@%s#positions" % name, "%s makes %d comparisons" % (name, len(eqs)), f.loc)


def driver_rule(ck, facts, name, helper_res):
    fn = find(ck, facts, "R7.2", r"%s$" % name, name)
    if fn is None:
        return
    key = "R7.2@%s" % name
    # early exits: Ok(false)
    falses = 0
    for bi, si, dest, ops in blocks_with_agg(fn, "core::result::Result", "Ok"):
        o = fn.origin(ops[0])
        if o[0] == "const" and o[1].get("v") == "0":
            falses += 1
    if falses >= 3:
        ck.ok("R7.2", "%s: %d early `Ok(false)` exits (size, pairwise, blank-node count)" % (name, falses))
    else:
        ck.bad("R7.2", key + "#early-exits", "%s has %d `Ok(false)` exits; the size test, the pairwise test and the blank-node-count test must "
               "each answer false" % (name, falses), fn.loc)
    # symmetric helper application
    counts = {}
    for bi, t in fn.calls():
        res = t["f"].get("res") or ""
        nm = (t["f"].get("name") or "")
        if (res in facts.fns and facts.fns[res].crate == "sophia_isomorphism") or re.search(r"sort_unstable|sort$|slice::<impl \[T\]>::(sort\w*|len|iter)$|Vec::<T, A>::len$|HashMap::<K, V, S, A>::len$", nm):
            base = nm.split("::")[-1]
            if base == "len" and t["dest"]:
                # only sizes that are *compared* say how the two arguments are treated; a size used in arithmetic (the
                # bound on the number of refinement rounds, taken from one side after both counts were found equal) does not
                d = t["dest"][0]
                compared = any(st[0] == "=" and st[2][0] == "bin" and st[2][1] in ("Eq", "Ne", "Lt", "Le", "Gt", "Ge")
                               and any(op[0] != "k" and op[1][0] == d for op in st[2][2:4])
                               for b in fn.blocks for st in b["s"])
                if not compared:
                    continue
            counts[base] = counts.get(base, 0) + 1
    odd = {k: v for k, v in counts.items() if v % 2 == 1 and k not in ("cmp_quads", "eq_triples", "eq_quads", "all", "zip", "eq")}
    if odd:
        ck.bad("R7.2", key + "#asymmetric", "%s applies %s an odd number of times: the two arguments are not treated alike" % (name, odd), fn.loc)
    else:
        ck.ok("R7.2", "%s: every helper applied to both arguments (%s)" % (name, {k: v for k, v in counts.items()}))
    # both sides sorted with the same (derived, blank-blind) order
    sorts = [t for _, t in fn.calls() if call_name_matches(t, r"slice::<impl \[T\]>::sort\w*$")]
    kinds = {t["f"]["name"].split("::")[-1] for t in sorts}
    if len(sorts) == 2 and len(kinds) == 1 and not any("by" in k for k in kinds):
        ck.ok("R7.2", "%s: both sides sorted with %s (Ord of IsoTerm: R7.1)" % (name, sorted(kinds)[0]))
    else:
        ck.bad("R7.2", key + "#sort", "%s must sort both statement lists with the same total order in which all blank nodes are equal and "
               "different statements never tie (found %s)" % (name, sorted(t["f"]["name"].split("::")[-1] for t in sorts)), fn.loc)
    # blame
    me = [(t, a) for _, t in fn.calls() if call_name_matches(t, r"Result::<T, E>::map_err$") for a in t["args"][1:]
          if a[0] == "k" and a[1].get("kind") == "fn"]
    got = [a[1]["def"].split("::")[-2] if "constructor" in a[1]["def"] else a[1]["def"].split("::")[-1] for t, a in me]
    if got[:2] == ["SourceError", "SinkError"]:
        ck.ok("R7.2", "%s: first argument's errors -> SourceError, second's -> SinkError" % name)
    else:
        ck.bad("R7.2", key + "#blame", "errors of the two arguments are mapped to %s" % got, fn.loc)
    # verdict: equality of the two equivalence-class maps
    fin = [t for _, t in fn.calls() if call_name_matches(t, r"PartialEq(<.*>)?>?::eq$") and "HashMap" in (t["f"].get("self_ty") or "")]
    if fin:
        ck.ok("R7.2", "%s: verdict = equality of both sides' colour-class histograms" % name)
    else:
        ck.bad("R7.2", key + "#verdict", "the final verdict is not the comparison of both sides' equivalence classes", fn.loc)


def colour_rule(ck, facts):
    for mod in ("dataset",):
        fn = find(ck, facts, "R7.4", r"^%s::make_map$" % mod, "%s::make_map" % mod)
        if fn is None:
            continue
        clos = facts.with_closures(fn)
        calls = [t for c in clos for _, t in c.calls()]
        names = [(t["f"].get("name") or "") for t in calls]
        xor = any(st[0] == "=" and st[2][0] == "bin" and st[2][1] == "BitXor" for c in clos for b in c.blocks for st in b["s"])
        add = any(st[0] == "=" and st[2][0] == "bin" and st[2][1] in ("Add", "AddWithOverflow", "AddUnchecked") and "u64" in c.locals[st[1][0]]["ty"]
                  for c in clos for b in c.blocks for st in b["s"]) or any(re.search(r"num::<impl u64>::wrapping_add$", n) for n in names)
        bad = [n for n in names if re.search(r"::dedup\w*$|::sort\w*$|iter::Iterator::(enumerate|rev|skip|take|last|position)$|Vec::<T, A>::push$", n)]
        # a fold is order-independent iff its step is a commutative, associative combination of the accumulator with the item's hash
        for c in clos:
            for _, t in c.calls():
                if call_name_matches(t, r"iter::Iterator::fold$") and len(t["args"]) >= 3:
                    o = c.origin(t["args"][2])
                    step = facts.fns.get(o[1]["def"]) if o[0] == "agg" and o[1].get("k") == "closure" else None
                    if o[0] == "const" and o[1].get("kind") == "fn" and re.search(r"wrapping_add", o[1].get("def", "") + o[1].get("ty", "")):
                        add = True          # `.fold(0, u64::wrapping_add)`
                        continue
                    ok_step = step is not None and (
                        any(re.search(r"num::<impl u64>::wrapping_add$", (tt["f"].get("name") or "")) for _, tt in step.calls())
                        or any(st[0] == "=" and st[2][0] == "bin" and st[2][1] in ("Add", "AddWithOverflow", "AddUnchecked", "BitXor") for b in step.blocks for st in b["s"]))
                    if not ok_step:
                        bad.append("iter::Iterator::fold")
        hq = [n for n in names if n.endswith("hash_quad_with") or n.endswith("hash_triple_with")]
        if bad:
            ck.bad("R7.4", "R7.4@%s::make_map#combination" % mod, "the colour of a node goes through an order-dependent step (%s) over its "
                   "statements' hashes: colours must not depend on statement order" % [b.split("::")[-1] for b in bad], fn.loc)
        if xor:
            ck.bad("R7.4", "R7.4@%s::make_map#xor-cancels" % mod, "the colour of a node is the XOR of its statements' hashes: two statements that "
                   "hash alike (a node pointing with the same predicate to two nodes of the same colour) cancel each other, so nodes "
                   "already distinguished are merged again, the refinement is not monotone and the class count can oscillate for "
                   "ever (isomorphic_graphs(g, g) never returns for a 17-node graph: findings/C07_refinement_never_terminates.rs)", fn.loc)
        elif bad:
            pass
        elif add and hq:
            ck.ok("R7.4", "%s::make_map: colour = wrapping sum over the node's statements of hash_*_with (commutative, not self-cancelling, no "
                  "order-dependent step)" % mod)
        else:
            ck.bad("R7.4", "R7.4@%s::make_map#combination" % mod, "the colour of a node is not a commutative, non-cancelling combination (wrapping "
                   "sum) of its statements' hashes (sum=%s, order-dependent steps: %s): colours must not depend on statement order" % (
                       add, [b.split("::")[-1] for b in bad]), fn.loc)


def hash_rule(ck, facts):
    """R7.6: in hash_term_with the label-sensitive `Term::hash` of the whole term is reached only when the term is neither a
    blank node nor a quoted triple, decided by the accessors themselves (`bnode_id()` is None and `triple()` is None, tested
    directly): a quoted triple that is not recursed into (e.g. because its *direct* components are ground) leaks the labels
    of blank nodes nested deeper into the colour."""
    fn = find(ck, facts, "R7.6", r"^hash::hash_term_with$", "hash::hash_term_with")
    if fn is None:
        return

    def on_call(t):
        if call_name_matches(t, r"Term>?::hash$|hash::Hash>?::hash$") and t["args"]:
            o = provenance(fn, t["args"][0])[-1]
            if o[0] == "param" and o[1] == 1:
                return ("HASH", t)
        return None
    try:
        paths = enumerate_paths(fn, 0, on_call, max_paths=2000)
    except Exception as e:
        ck.bad("R7.6", "R7.6@hash_term_with#shape", str(e), fn.loc)
        return
    n = 0
    for conds, toks in paths:
        if not any(isinstance(t, tuple) and t[0] == "HASH" for t in toks):
            continue
        n += 1
        direct = {}
        for d, outcome, src in conds:
            m = re.search(r"Term>?::(bnode_id|triple)$", d or "")
            if m and src and src[0] == "call":
                direct[m.group(1)] = outcome
        if direct.get("bnode_id") == "None" and direct.get("triple") == "None":
            continue
        ck.bad("R7.6", "R7.6@hash_term_with#label-leak", "the whole term is hashed with the label-sensitive Term::hash on a path where "
               "`bnode_id()` / `triple()` were not both found None by a direct test (found %s): a quoted triple that is not recursed "
               "into leaks the labels of the blank nodes nested in it" % direct, fn.loc)
        return
    if n:
        ck.ok("R7.6", "hash_term_with: Term::hash of the whole term only when bnode_id() and triple() are both None (%d path(s))" % n)
    else:
        ck.bad("R7.6", "R7.6@hash_term_with#no-ground-path", "no path hashes a ground term with Term::hash", fn.loc)


SHRINKERS = r"Vec::<T, A>::(dedup|dedup_by|dedup_by_key|retain|retain_mut|remove|swap_remove|truncate|drain|pop|clear|split_off)$"


def no_merge_rule(ck, facts, crate="sophia_isomorphism", ty_re=r"IsoTerm"):
    """R7.7: the prepared quads (wrapped in IsoTerm, whose equality identifies *all* blank nodes) are never merged, removed
    or de-duplicated: `q1 == q2` on IsoTerm quads does not mean "the same quad", so any dedup/retain/remove on those vectors
    can drop distinct quads (e.g. the same ground triple in two blank-named graphs) and makes the answer order-dependent."""
    n = 0
    bad = []
    for f in facts.fns.values():
        if f.crate != crate:
            continue
        n += 1
        for bi, t in f.calls():
            if call_name_matches(t, SHRINKERS) and t["args"] and t["args"][0][0] != "k":
                ty = f.locals[t["args"][0][1][0]]["ty"]
                if re.search(ty_re, ty):
                    root = f if f.kind != "Closure" else facts.fns.get(f.root, f)
                    bad.append((root.name, t["f"]["name"].split("::")[-1], "%s:%s" % (t["file"], t["line"])))
    for name, op, loc in bad:
        ck.bad("R7.7", "R7.7@%s#%s" % (name, op), "%s applies `%s` to a vector of IsoTerm quads: IsoTerm equality is blank-blind, so this can "
               "merge or drop distinct quads" % (name, op), loc)
    if not bad:
        ck.ok("R7.7", "no merging / removal on vectors of IsoTerm quads (%d functions)" % n)


def counter_bounded(fn, anchor_re):
    """(loop found, it has an exit taken when a counter that changes by a constant every round reaches a bound)"""
    anchors = [bi for bi, t in fn.calls() if call_name_matches(t, anchor_re)]
    if not anchors:
        return False, False
    a = anchors[0]
    loop = {b for b in fn.reachable(a) if a in fn.reachable(b) and b != a} | {a}
    if a not in fn.reachable(fn.blocks[a]["t"]["to"]):
        return False, False
    # counters: c = (c +/- const).0 inside the loop
    counters = set()
    for b in loop:
        for st in fn.blocks[b]["s"]:
            if st[0] == "=" and st[2][0] == "bin" and st[2][1] in ("SubWithOverflow", "AddWithOverflow", "Sub", "Add", "SubUnchecked", "AddUnchecked"):
                l, r = st[2][2], st[2][3]
                if l[0] != "k" and len(l[1]) == 1 and r[0] == "k":
                    tmp = st[1][0]
                    for b2 in loop:
                        for s2 in fn.blocks[b2]["s"]:
                            if s2[0] == "=" and s2[1] == [l[1][0]] and s2[2][0] == "use" and s2[2][1][0] != "k" and s2[2][1][1][0] == tmp:
                                counters.add(l[1][0])
                    if st[1] == [l[1][0]]:
                        counters.add(l[1][0])
    for b in loop:
        bs = bool_switch(fn, b)
        if not bs or bs[0][0] != "rvalue" or bs[0][1][0] != "bin" or bs[0][1][1] not in ("Eq", "Ne", "Lt", "Le", "Gt", "Ge"):
            continue
        ops = bs[0][1][2:4]
        roots = set()
        for op in ops:
            if op[0] != "k":
                sd = fn.single_def(op[1][0])
                roots.add(op[1][0])
                if sd and sd[2][0] == "use" and sd[2][1][0] != "k":
                    roots.add(sd[2][1][1][0])
        if roots & counters and any(e not in loop for e in (bs[1], bs[2])):
            return True, True
    return True, False


def termination_rule(ck, facts):
    """R7.8: the exits of the refinement loop test the number of colour classes, which is not monotone (a node's previous colour
    is not part of its next colour); termination is guaranteed only by a counter-bounded exit."""
    import core
    ck.control("R7.8", "pos_unbounded_fixpoint", counter_bounded(core.fixture_fn("pos_unbounded_fixpoint"), r"^step$") == (True, False))
    ck.control("R7.8", "neg_bounded_fixpoint", counter_bounded(core.fixture_fn("neg_bounded_fixpoint"), r"^step$") != (True, True), expect=False)
    fn = find(ck, facts, "R7.8", r"^dataset::isomorphic_datasets$", "isomorphic_datasets")
    if fn is None:
        return
    found, ok = counter_bounded(fn, r"^dataset::make_map$")
    if not found:
        ck.bad("R7.8", "R7.8@isomorphic_datasets#anchor", "anchor-missing: the refinement loop around make_map", fn.loc)
    elif ok:
        ck.ok("R7.8", "isomorphic_datasets: the refinement loop has a counter-bounded exit")
    else:
        ck.bad("R7.8", "R7.8@isomorphic_datasets#unbounded-refinement", "the refinement loop only stops when the number of colour classes "
               "stops changing or every node is distinguished; that number is not monotone (a node's new colour does not include "
               "its old one), so the loop can run for ever on a graph that is isomorphic to itself", fn.loc)


def duplicates_rule(ck, facts):
    """R7.9: Graph/Dataset implementations may yield a statement several times; the statements are collected through a set
    with an exact (label-sensitive) order before sizes are compared and before they are wrapped as blank-blind IsoTerms."""
    fn = find(ck, facts, "R7.9", r"^dataset::prepare_dataset$", "prepare_dataset")
    if fn is None:
        return
    fs = facts.with_closures(fn)
    exact_set = any(re.search(r"^std::collections::(BTreeSet|HashSet)<\(\[(sophia_api::term::CmpTerm|sophia_api::term::SimpleTerm)", l["ty"]) for f in fs for l in f.locals)
    dedup = any(call_name_matches(t, r"Vec::<T, A>::dedup\w*$") for f in fs for _, t in f.calls())
    blind_set = any(re.search(r"^std::collections::(BTreeSet|HashSet)<\(\[iso_term::IsoTerm", l["ty"]) for f in fs for l in f.locals)
    if blind_set:
        ck.bad("R7.9", "R7.9@prepare_dataset#blank-blind-set", "the statements are collected in a set of IsoTerms, whose order treats all blank "
               "nodes as equal: different statements are merged", fn.loc)
    elif exact_set:
        ck.ok("R7.9", "prepare_dataset: statements pass through a set ordered by the exact term comparison (duplicates removed)")
    elif dedup:
        ck.ok("R7.9", "prepare_dataset: duplicates removed with dedup (exactness decided by R7.7)")
    else:
        ck.bad("R7.9", "R7.9@prepare_dataset#duplicates-counted", "the statements yielded by the container are counted and zipped as they come: "
               "a Vec-backed graph holding a triple twice (or a union graph of two named graphs sharing a triple) is not "
               "isomorphic to its own de-duplicated copy", fn.loc)


def run(ck, facts, tier):
    facts.require_crates(["sophia_isomorphism"])
    iso_term_rule(ck, facts)
    hash_rule(ck, facts)
    import core
    pr = core.Probe()
    no_merge_rule(pr, core.fixture_facts(), crate="vfix", ty_re=r"BlindTerm")
    ck.control("R7.7", "pos_dedup_blind (dedup_by on a vector with a coarse equality)", pr.fired(r"pos_dedup_blind#dedup_by$"))
    ck.control("R7.7", "neg_sort_blind", pr.fired(r"neg_sort_blind"), expect=False)
    no_merge_rule(ck, facts)
    eq_gn_rule(ck, facts)
    driver_rule(ck, facts, "dataset::isomorphic_datasets", None)
    gfn = find(ck, facts, "R7.2", r"^graph::isomorphic_graphs$", "graph::isomorphic_graphs")
    if gfn is not None:
        fw = [t for _, t in gfn.calls() if call_name_matches(t, r"dataset::isomorphic_datasets$")]
        asd = [t for _, t in gfn.calls() if call_name_matches(t, r"Graph>?::as_dataset$")]
        ok = len(fw) == 1 and len(asd) == 2 and (fw[0]["dest"] == [0] or is_identity_rewrap(gfn, fw[0]))
        if ok:
            a0 = comes_from_call(gfn, fw[0]["args"][0], r"Graph>?::as_dataset$")
            a1 = comes_from_call(gfn, fw[0]["args"][1], r"Graph>?::as_dataset$")
            p0 = provenance(gfn, a0[1]["args"][0])[-1] if a0 else None
            p1 = provenance(gfn, a1[1]["args"][0])[-1] if a1 else None
            ok = bool(p0 and p1 and p0[0] == "param" and p1[0] == "param" and (p0[1], p1[1]) == (1, 2))
        if ok:
            ck.ok("R7.2", "isomorphic_graphs(g1, g2) = isomorphic_datasets(&g1.as_dataset(), &g2.as_dataset())")
        else:
            ck.bad("R7.2", "R7.2@graph::isomorphic_graphs#forward", "isomorphic_graphs is not the plain forward to isomorphic_datasets on both "
                   "graphs viewed as datasets, in order", gfn.loc)
    colour_rule(ck, facts)
    termination_rule(ck, facts)
    duplicates_rule(ck, facts)
    ck.assumptions = ["hash collisions of the 64-bit colour hashes are not considered", "completeness of the refinement (that it distinguishes exactly the non-automorphic nodes) not decided"]
    ck.trusted = ["rustc MIR", "std sort"]
