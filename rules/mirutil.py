"""Helpers over the MIR-lite facts shared by several rules."""
import re
from core import callee_id, callee_name, CheckError


def is_call_to(term, *names):
    """call terminator whose (unresolved or resolved) pretty name is one of `names`"""
    f = term["f"]
    if "def" not in f:
        return False
    return f["name"] in names or f.get("res_name") in names


def call_name_matches(term, pattern):
    f = term["f"]
    if "def" not in f:
        return False
    return bool(re.search(pattern, f["name"]) or (f.get("res_name") and re.search(pattern, f["res_name"])))


def bool_switch(fn, bi):
    """If block bi ends in a switch on a bool, return (origin, true_target, false_target) where origin is the
    result of fn.origin on the tested value with negations (`!x`) folded into the targets."""
    t = fn.blocks[bi]["t"]
    if t["t"] != "switch" or t.get("ty") != "bool":
        return None
    vals = dict((v, b) for v, b in t["vals"])
    if "0" in vals:
        false_t, true_t = vals["0"], t["else"]
    elif "1" in vals:
        true_t, false_t = vals["1"], t["else"]
    else:
        return None
    op = t["on"]
    neg = False
    for _ in range(8):
        if op[0] == "k":
            return (("const", op[1]), true_t, false_t)
        o = fn.origin(op)
        if o[0] == "rvalue" and o[1][0] == "un" and o[1][1] == "Not":
            neg = not neg
            op = o[1][2]
            continue
        if neg:
            true_t, false_t = false_t, true_t
        return (o, true_t, false_t)
    return None


def reachable_without_edge(fn, edge, start=0):
    """blocks reachable from start along normal edges when `edge` (src, dst) is removed"""
    seen = set()
    st = [start]
    while st:
        b = st.pop()
        if b in seen:
            continue
        seen.add(b)
        for s in fn.succs(b):
            if (b, s) == edge:
                continue
            st.append(s)
    return seen


def edge_dominates(fn, edge, block):
    """every path from entry to `block` uses `edge`"""
    if block not in fn.reachable(0):
        return True
    return block not in reachable_without_edge(fn, edge)


def blocks_with_agg(fn, adt_def=None, vname=None, kind="adt"):
    """blocks that construct an aggregate of the given ADT/variant; yields (bi, si, dest_place, ops)"""
    for bi, b in enumerate(fn.blocks):
        if b.get("cleanup"):
            continue
        for si, s in enumerate(b["s"]):
            if s[0] == "=" and s[2][0] == "agg":
                k = s[2][1]
                if k["k"] != kind:
                    continue
                if adt_def and k.get("def") != adt_def:
                    continue
                if vname and k.get("vname") != vname:
                    continue
                yield bi, si, s[1], s[2][2]


def const_strs(fn):
    """all string/bytes constants appearing in the function: yields (bi, value)"""
    def walk(x):
        if isinstance(x, list):
            if len(x) == 2 and x[0] == "k" and isinstance(x[1], dict):
                if x[1].get("kind") == "str":
                    yield x[1].get("v")
                return
            for y in x:
                yield from walk(y)
        elif isinstance(x, dict):
            for y in x.values():
                yield from walk(y)
    for bi, b in enumerate(fn.blocks):
        if b.get("cleanup"):
            continue
        for v in walk(b["s"]):
            yield bi, v
        for v in walk(b["t"]):
            yield bi, v


# --------------------------------------------------------------------------- regex statics

REGEX_NEW = ("regex::Regex::new", "regex::RegexSet::new", "regex::bytes::Regex::new")
REGEX_MATCH = ("regex::Regex::is_match", "regex::RegexSet::is_match")


def _pattern_values(facts, fn, operand):
    """the string constant(s) an operand of Regex::new / RegexSet::new denotes, with their source"""
    o = fn.origin(operand)
    if o[0] == "const":
        c = o[1]
        if c.get("kind") == "str":
            return [dict(value=c["v"], source=c.get("from") or "literal")]
        if c.get("kind") == "static":
            cd = facts.consts.get(c["def"])
            if cd is None or "value" not in cd:
                raise CheckError("regex source static %s has no evaluated value" % c["def"])
            return [dict(value=cd["value"], source=c["def"])]
        raise CheckError("regex source constant of unexpected kind in %s: %r" % (fn.id, c))
    if o[0] == "agg" and o[1]["k"] == "array":
        out = []
        for op in o[2]:
            out.extend(_pattern_values(facts, fn, op))
        return out
    raise CheckError("regex source in %s is not a constant (%r): cannot decide its language" % (fn.id, o[0]))


def regex_sites(facts, crates=None):
    """every Regex::new / RegexSet::new call in the workspace: dict(owner, fn, patterns, set)"""
    out = []
    for fn in facts.fns.values():
        if crates and fn.crate not in crates:
            continue
        for bi, t in fn.calls():
            if not is_call_to(t, *REGEX_NEW):
                continue
            pats = _pattern_values(facts, fn, t["args"][0])
            owner = None
            if fn.kind == "Closure" and fn.root in facts.consts:
                owner = fn.root                       # static X: LazyLock<..> = LazyLock::new(|| Regex::new(..))
            m = re.match(r"^(.*::\{impl#\d+\})::deref::__static_ref_initialize$", fn.id)
            if m:                                     # lazy_static!
                for i in facts.impls:
                    if i["id"] == m.group(1):
                        owner = i.get("self_adt") or i["self_ty"]
            out.append(dict(owner=owner, fn=fn, patterns=pats, is_set="RegexSet" in t["f"]["name"],
                            loc="%s:%s" % (t["file"], t["line"])))
    return out


def regex_owner_of_receiver(facts, fn, operand):
    """which regex static a `.is_match(..)` receiver denotes (through Deref::deref of LazyLock / lazy_static)"""
    o = fn.origin(operand)
    if o[0] == "call" and call_name_matches(o[1], r"ops::Deref::deref$|ops::deref::Deref::deref$"):
        t = o[1]
        res = t["f"].get("res")
        if res:
            m = re.match(r"^(.*::\{impl#\d+\})::deref$", res)
            if m:
                for i in facts.impls:
                    if i["id"] == m.group(1) and i["crate"] in facts.crates:
                        return i.get("self_adt") or i["self_ty"]
        a = fn.origin(t["args"][0])
        if a[0] == "const" and a[1].get("kind") == "static":
            return a[1]["def"]
    if o[0] == "const" and o[1].get("kind") == "static":
        return o[1]["def"]
    return None


def match_calls(facts, fn):
    """is_match calls in fn: yields (bi, term, owner)"""
    for bi, t in fn.calls():
        if is_call_to(t, *REGEX_MATCH):
            yield bi, t, regex_owner_of_receiver(facts, fn, t["args"][0])


def patterns_by_owner(facts, crates=None):
    d = {}
    for s in regex_sites(facts, crates):
        if s["owner"] is None:
            continue
        d.setdefault(s["owner"], []).append(s)
    return d


def union_pattern(patterns):
    """a single rust-regex pattern for the union of several whole patterns (each keeps its own flags)"""
    return "|".join("(?:%s)" % p for p in patterns)


def uses_of_local(fn, local):
    """yield (bi, kind, obj) for every statement/terminator operand that reads `local` (whole or projected)"""
    def mentions(x):
        if isinstance(x, list):
            if len(x) == 2 and x[0] in ("c", "m") and isinstance(x[1], list) and x[1] and x[1][0] == local:
                return True
            return any(mentions(y) for y in x)
        if isinstance(x, dict):
            return any(mentions(y) for y in x.values())
        return False
    for bi, b in enumerate(fn.blocks):
        for s in b["s"]:
            if s[0] == "=":
                rv = s[2]
                hit = mentions(rv)
                if rv[0] in ("ref", "rawptr") and rv[2][0] == local:
                    hit = True
                if rv[0] in ("cfd", "discr") and rv[1][0] == local:
                    hit = True
                if hit:
                    yield bi, "stmt", s
        t = b["t"]
        if t["t"] == "call" and (mentions(t["args"]) or mentions(t["f"])):
            yield bi, "call", t
        elif t["t"] == "switch" and mentions(t["on"]):
            yield bi, "switch", t
        elif t["t"] == "drop" and t["place"][0] == local:
            yield bi, "drop", t


def forward_aliases(fn, local, limit=12):
    """locals that receive `local`'s value through plain moves/copies (forward direction)"""
    out = {local}
    work = [local]
    while work and len(out) < limit:
        l = work.pop()
        for b in fn.blocks:
            for s in b["s"]:
                if s[0] == "=" and len(s[1]) == 1 and s[2][0] == "use" and s[2][1][0] in ("c", "m") \
                        and s[2][1][1] == [l] and s[1][0] not in out:
                    out.add(s[1][0])
                    work.append(s[1][0])
                elif s[0] == "=" and len(s[1]) == 1 and s[2][0] == "cast" and s[2][1].startswith("PointerCoercion") \
                        and s[2][2][0] in ("c", "m") and s[2][2][1] == [l] and s[1][0] not in out:
                    out.add(s[1][0])
                    work.append(s[1][0])
    return out


def try_success_edge(fn, call_term):
    """For a call returning Result/Option that is followed by `?`: the (switch block, continue target,
    break target) of the desugared `match Try::branch(x)`; None if the result is not `?`-ed."""
    if len(call_term["dest"]) != 1:
        return None
    als = forward_aliases(fn, call_term["dest"][0])
    for bi, t in fn.calls():
        if call_name_matches(t, r"ops::Try::branch$|try_trait::Try::branch$") and t["args"] \
                and t["args"][0][0] in ("c", "m") and t["args"][0][1][0] in als and len(t["args"][0][1]) == 1:
            d = t["dest"]
            # switch on discriminant(d)
            # the nearest switch after the call (breadth first: block numbers are not topological once the function has loops)
            order, seen_, todo_ = [], set(), [t["to"]]
            while todo_:
                nb_ = todo_.pop(0)
                if nb_ is None or nb_ in seen_:
                    continue
                seen_.add(nb_)
                order.append(nb_)
                if fn.blocks[nb_]["t"]["t"] != "switch":
                    todo_.extend(fn.succs(nb_))
            for cand in order:
                tt = fn.blocks[cand]["t"]
                if tt["t"] == "switch":
                    o = fn.origin(tt["on"])
                    if o[0] == "rvalue" and o[1][0] == "discr" and o[1][1] == d:
                        vals = dict((v, b) for v, b in tt["vals"])
                        cont = vals.get("0")
                        brk = vals.get("1", tt["else"])
                        if cont is None:
                            cont = tt["else"]
                        return cand, cont, brk
                    break
    # the same decision spelled `match f(..) { Ok(v) => .., Err(e) => .. }`: a switch on the discriminant of the Result itself
    for cand, bk in enumerate(fn.blocks):
        tt = bk["t"]
        if tt["t"] != "switch" or bk.get("cleanup"):
            continue
        var = tt.get("variants") or {}
        if var.get("enum") not in ("core::result::Result", "core::option::Option"):
            continue
        o = fn.origin(tt["on"])
        if o[0] == "rvalue" and o[1][0] == "discr" and o[1][1] and o[1][1][0] in als and not [p for p in o[1][1][1:] if p != "*"]:
            names = var["names"]
            cont = brk = None
            for v, tb in tt["vals"]:
                if names.get(v) in ("Ok", "Some"):
                    cont = tb
                elif names.get(v) in ("Err", "None"):
                    brk = tb
            return cand, (cont if cont is not None else tt["else"]), (brk if brk is not None else tt["else"])
    return None


def result_edges(fn, call_term):
    """Where the Result/Option returned by `call_term` is decided: (switch block, success target, failure target), whether the
    decision is spelled `?`, `match`, `if let`, or `if x.is_err()` / `is_ok()` / `is_some()` / `is_none()`.  None if undecided."""
    e = try_success_edge(fn, call_term)
    if e:
        return e
    if len(call_term["dest"]) != 1:
        return None
    als = forward_aliases(fn, call_term["dest"][0])
    for bi, b in enumerate(fn.blocks):
        if b.get("cleanup"):
            continue
        bs = bool_switch(fn, bi)
        if not bs or bs[0][0] != "call":
            continue
        t = bs[0][1]
        m = re.search(r"::(is_ok|is_err|is_some|is_none)$", t["f"].get("name") or "")
        if not m or not t["args"] or t["args"][0][0] == "k":
            continue
        o = fn.origin(t["args"][0])
        hit = (o[0] == "call" and o[1] is call_term) or (t["args"][0][1][0] in als)
        if not hit:
            # `x.is_err()` takes `&x`: a reference local whose referent is the call's destination
            sd = fn.single_def(t["args"][0][1][0])
            hit = sd is not None and sd[2][0] == "ref" and sd[2][2][0] in als
        if hit:
            if m.group(1) in ("is_ok", "is_some"):
                return bi, bs[1], bs[2]
            return bi, bs[2], bs[1]
    return None


def used_after_failure(fn, check_term, use_blocks):
    """Does the failure edge of the Result/Option returned by `check_term` still reach one of `use_blocks`?
    True / False, or None when the result is never decided."""
    e = result_edges(fn, check_term)
    if e is None:
        return None
    reach = fn.reachable(e[2])
    return any(b in reach for b in use_blocks)


def is_identity_rewrap(fn, call_term, err_ctor_ok=False):
    """The Result of `call_term` is what the function returns, spelled `match r { Ok(v) => Ok(v), Err(e) => Err(e) }` (the long form of
    returning `r`; with err_ctor_ok also `Err(e) => Err(Wrap(e))`, the long form of `.map_err(Wrap)`): every assignment to the return
    place is an `Ok` / `Err` aggregate whose payload is the corresponding payload of the call's result."""
    if len(call_term["dest"]) != 1:
        return False
    d = call_term["dest"][0]
    als = set(forward_aliases(fn, d, limit=20))
    found = 0
    after = fn.reachable(call_term["to"]) if call_term.get("to") is not None else set()
    for b_i, b in enumerate(fn.blocks):
        if b.get("cleanup") or b_i not in after:
            continue            # what is returned on paths that never made the call is not this call's business
        for st in b["s"]:
            if st[0] != "=" or st[1] != [0]:
                continue
            rv = st[2]
            if rv[0] == "use" and rv[1][0] != "k" and rv[1][1][0] in als and len(rv[1][1]) == 1:
                found += 1
                continue
            if rv[0] != "agg" or rv[1].get("vname") not in ("Ok", "Err") or len(rv[2]) != 1 or rv[2][0][0] == "k":
                return False
            want = "d0:Ok" if rv[1]["vname"] == "Ok" else "d1:Err"
            op = rv[2][0]
            o = fn.origin(op)
            if err_ctor_ok and rv[1]["vname"] == "Err" and o[0] == "agg" and len(o[2]) == 1 and o[2][0][0] != "k":
                o = fn.origin(o[2][0])          # Err(Wrap(e))
            pl = o[1] if o[0] == "place" and o[1] else (op[1] if o[0] in ("place",) else None)
            if pl is None:
                # a plain copy chain of the payload: follow single definitions
                cur = op
                for _ in range(6):
                    sd = fn.single_def(cur[1][0]) if cur[0] != "k" else None
                    if sd is None or sd[2][0] != "use" or sd[2][1][0] == "k":
                        break
                    cur = sd[2][1]
                pl = cur[1] if cur[0] != "k" else None
            if not pl or pl[0] not in als or want not in [str(x) for x in pl[1:]]:
                return False
            found += 1
    return found > 0


def leaf_calls(fn, operand, limit=40):
    """names of all calls the operand's value is computed from, following every argument of every call on the way back
    (an over-approximation of "derives from"; loop-carried iterators are followed through their single definition)"""
    names, seen, todo = [], set(), [operand]
    while todo and len(seen) < limit:
        op = todo.pop()
        if op is None or op[0] == "k":
            continue
        key = repr(op[1])
        if key in seen:
            continue
        seen.add(key)
        o = fn.origin(op)
        if o[0] == "place" and o[1]:
            sd = fn.single_def(o[1][0])
            if sd is not None and sd[2][0] == "call":
                o = ("call", sd[2][1], sd[0])
            elif sd is not None and sd[2][0] in ("ref", "rawptr"):
                todo.append(["m", list(sd[2][2])])
                continue
            elif sd is not None and sd[2][0] == "use":
                todo.append(sd[2][1])
                continue
        if o[0] == "call":
            names.append(o[1]["f"].get("name") or "?")
            todo.extend(o[1]["args"])
        elif o[0] == "agg":
            todo.extend(o[2])
        elif o[0] == "param":
            names.append("param:%d%s" % (o[1], "".join("." + str(x) for x in o[2])))
        elif o[0] == "rvalue" and o[1][0] in ("ref", "rawptr"):
            todo.append(["m", list(o[1][2])])
    return names


# --------------------------------------------------------------------------- value provenance through transparent calls

TRANSPARENT = (r"ops::Deref::deref$", r"ops::deref::Deref::deref$", r"borrow::Borrow::borrow$", r"convert::AsRef::as_ref$",
               r"::as_str$", r"::as_bytes$", r"Option::<T>::unwrap$", r"Option::<T>::expect$", r"Result::<T, E>::unwrap$",
               r"::as_ref$", r"clone::Clone::clone$", r"::to_owned$", r"convert::Into::into$", r"convert::Into<U>>::into$",
               r"convert::From::from$", r"::borrow_term$", r"Option::<T>::as_ref$", r"::borrow_mown$", r"::unwrap$",
               r"string::ToString::to_string$", r"::to_string$", r"::as_iri_ref$", r"::as_iri$", r"Result::<T, E>::ok$")


def provenance(fn, operand, transparent=TRANSPARENT, depth=0):
    """Follow an operand back to its origin, passing *through* calls that merely re-view their first argument
    (deref, borrow, as_str, unwrap, clone, ...).  Returns the list of origins met on the way (outermost last);
    the last element is the ultimate origin as returned by Fn.origin."""
    chain = []
    op = operand
    for _ in range(24):
        o = fn.origin(op)
        if o[0] == "place" and o[1]:
            # a projection (payload of Some/Ok, tuple field) of a call result: look through it
            sd = fn.single_def(o[1][0])
            if sd is not None and sd[2][0] == "call":
                chain.append(o)
                o = ("call", sd[2][1], sd[0])
        chain.append(o)
        if o[0] == "call" and o[1]["args"] and any(call_name_matches(o[1], p) for p in transparent):
            op = o[1]["args"][0]
            continue
        break
    return chain


def comes_from_call(fn, operand, name_pattern, transparent=TRANSPARENT):
    """does the operand's value derive (through transparent calls) from a call whose name matches?"""
    for o in provenance(fn, operand, transparent):
        if o[0] == "call" and call_name_matches(o[1], name_pattern):
            return o
    return None


def decode_fmt_template(v):
    """decode core::fmt's byte template into [('lit', str) | ('arg', index_or_None, has_spec)]; None if malformed"""
    if isinstance(v, str):
        b = v.encode("utf-8")
    else:
        b = bytes(v)
    out = []
    i = 0
    while i < len(b):
        n = b[i]
        i += 1
        if n == 0:
            if i == len(b):
                return out
            return None
        if n < 128:
            out.append(("lit", b[i:i + n].decode("utf-8", "replace")))
            i += n
        elif n == 128:
            ln = b[i] | (b[i + 1] << 8)
            out.append(("lit", b[i + 2:i + 2 + ln].decode("utf-8", "replace")))
            i += 2 + ln
        elif n >= 0xC0:
            skip = (4 if n & 1 else 0) + (2 if n & 2 else 0) + (2 if n & 4 else 0)
            idx = None
            i += skip
            if n & 8:
                idx = b[i] | (b[i + 1] << 8)
                i += 2
            out.append(("arg", idx, bool(n & 7)))      # third element: the placeholder carries flags / width / precision
        else:
            return None
    return None


def fmt_templates(fn):
    """yield (bi, call term, decoded template) for every fmt::Arguments construction in fn"""
    for bi, t in fn.calls():
        if call_name_matches(t, r"fmt::Arguments::<'a>::new$|fmt::Arguments::<'_>::new$|fmt::Arguments::<'a>::from_str$|fmt::Arguments::<'a>::new_const$"):
            o = fn.origin(t["args"][0])
            if o[0] == "const" and o[1].get("kind") == "str":
                if "from_str" in (t["f"].get("name") or ""):
                    yield bi, t, [("lit", o[1]["v"])]
                else:
                    yield bi, t, decode_fmt_template(o[1]["v"])
            else:
                yield bi, t, None


# --------------------------------------------------------------------------- language of a boolean predicate fn(&str)

def _san(s):
    return re.sub(r"[^A-Za-z0-9]+", "_", s).strip("_")


def predicate_expr(facts, fn, rl, owners, param=1):
    """Language decided by a small predicate function over its string parameter, as a prefix boolean
    expression over languages registered in `rl`.  Atoms: REGEX.is_match(param) and param.is_empty().
    All acyclic paths are enumerated; any other construct that influences the verdict fails closed."""
    names = {}

    def atom(t):
        if is_call_to(t, *REGEX_MATCH):
            owner = regex_owner_of_receiver(facts, fn, t["args"][0])
            if owner is None or owner not in owners:
                raise CheckError("%s: is_match on an unknown regex (%r)" % (fn.name, owner))
            pv = provenance(fn, t["args"][1])[-1]
            if not (pv[0] == "param" and pv[1] == param):
                raise CheckError("%s: is_match on something other than the parameter" % fn.name)
            n = "RX_" + _san(owner)
            pats = [p["value"] for s in owners[owner] for p in s["patterns"]]
            rl.lang(n, union_pattern(pats))
            names[n] = owner
            return n
        if call_name_matches(t, r"str>::is_empty$"):
            pv = provenance(fn, t["args"][0])[-1]
            if not (pv[0] == "param" and pv[1] == param):
                raise CheckError("%s: is_empty on something other than the parameter" % fn.name)
            rl.lang("EMPTYSTR", "^$")
            return "EMPTYSTR"
        return None

    accepting = []

    def val_of(env, op):
        if op[0] == "k":
            c = op[1]
            if c.get("ty") == "bool" and c.get("kind") == "int":
                return ("const", c["v"] == "1")
            return ("unknown",)
        p = op[1]
        if len(p) == 1:
            return env.get(p[0], ("unknown",))
        return ("unknown",)

    def walk(bi, env, conds, seen):
        if bi in seen:
            raise CheckError("%s: loop in a predicate function (unsupported shape)" % fn.name)
        seen = seen | {bi}
        env = dict(env)
        b = fn.blocks[bi]
        for s in b["s"]:
            if s[0] == "=" and len(s[1]) == 1:
                rv = s[2]
                if rv[0] == "use":
                    env[s[1][0]] = val_of(env, rv[1])
                elif rv[0] == "un" and rv[1] == "Not":
                    v = val_of(env, rv[2])
                    env[s[1][0]] = ("not", v) if v[0] != "unknown" else v
                else:
                    env[s[1][0]] = ("unknown",)
        t = b["t"]
        k = t["t"]
        if k == "ret":
            v = env.get(0, ("unknown",))
            neg = False
            while v[0] == "not":
                neg = not neg
                v = v[1]
            if v[0] == "const":
                if v[1] != neg:
                    accepting.append(list(conds))
            elif v[0] == "atom":
                accepting.append(list(conds) + [(v[1], not neg)])
            else:
                raise CheckError("%s: verdict does not come from a recognised test" % fn.name)
            return
        if k == "goto":
            return walk(t["to"], env, conds, seen)
        if k == "call":
            a = atom(t)
            if len(t["dest"]) == 1:
                env[t["dest"][0]] = ("atom", a) if a else ("unknown",)
            if t["to"] is None:
                return
            return walk(t["to"], env, conds, seen)
        if k == "switch":
            v = val_of(env, t["on"])
            neg = False
            while v[0] == "not":
                neg = not neg
                v = v[1]
            vals = dict((x, y) for x, y in t["vals"])
            if t.get("ty") != "bool":
                raise CheckError("%s: non-boolean switch in predicate" % fn.name)
            if "0" in vals:
                f_t, t_t = vals["0"], t["else"]
            else:
                t_t, f_t = vals["1"], t["else"]
            if neg:
                t_t, f_t = f_t, t_t
            if v[0] == "const":
                return walk(t_t if v[1] else f_t, env, conds, seen)
            if v[0] == "atom":
                walk(t_t, env, conds + [(v[1], True)], seen)
                walk(f_t, env, conds + [(v[1], False)], seen)
                return
            raise CheckError("%s: branch on an unrecognised test" % fn.name)
        if k in ("drop", "assert"):
            return walk(t["to"], env, conds, seen)
        if k == "unreach":
            return
        raise CheckError("%s: unsupported terminator %s in predicate" % (fn.name, k))

    walk(0, {}, [], frozenset())

    def conj(lits):
        if not lits:
            return "__utf8"
        parts = [(n if pos else "! " + n) for n, pos in lits]
        e = parts[0]
        for p in parts[1:]:
            e = "& %s %s" % (e, p)
        return e
    if not accepting:
        return "& __utf8 ! __utf8", names
    e = conj(accepting[0])
    for a in accepting[1:]:
        e = "| %s %s" % (e, conj(a))
    return e, names


# --------------------------------------------------------------------------- finite evaluation of pure integer tests

def eval_pure(fn, start_block, start_stmt, env, stop, want_env=False):
    """Evaluate straight-line integer/boolean MIR (assignments of use/bin/un/cast over known locals, switches) from
    (start_block, start_stmt) under `env` {local: int}.  Stops when control reaches a block for which stop(block)
    returns a label (that label is returned), or at a call/return (returns ('term', block)).  Unknown values used
    in a switch raise CheckError: only code whose control depends on the given locals through comparisons is
    supported (predicate abstraction over a finite domain, no execution of sophia code)."""
    env = dict(env)
    bi, si = start_block, start_stmt
    steps = 0

    def val(op):
        if op[0] == "k":
            c = op[1]
            if c.get("kind") == "int":
                return int(c["v"])
            return None
        p = op[1]
        if len(p) == 1:
            return env.get(p[0])
        if len(p) == 2 and p[1] == "*" and p[0] in refs:
            return env.get(refs[p[0]])        # `*r` where `r = &local` (match guards read the scrutinee through a reference)
        return None
    refs = {}
    masks = {"u8": 0xFF, "u16": 0xFFFF, "u32": 0xFFFFFFFF}
    while steps < 10000:
        steps += 1
        if si == 0:
            lab = stop(bi)
            if lab is not None:
                return (lab, env) if want_env else lab
        b = fn.blocks[bi]
        for s in b["s"][si:]:
            if s[0] != "=" or len(s[1]) != 1:
                continue
            rv = s[2]
            d = s[1][0]
            if rv[0] == "use":
                env[d] = val(rv[1])
            elif rv[0] == "ref" and len(rv[2]) == 1:
                refs[d] = rv[2][0]
                env[d] = None
            elif rv[0] == "bin":
                a, c = val(rv[2]), val(rv[3])
                if a is None or c is None:
                    env[d] = None
                else:
                    op = rv[1]
                    r = {"Eq": a == c, "Ne": a != c, "Lt": a < c, "Le": a <= c, "Gt": a > c, "Ge": a >= c}.get(op)
                    if r is not None:
                        env[d] = int(r)
                    elif op == "BitAnd":
                        env[d] = a & c
                    elif op == "BitOr":
                        env[d] = a | c
                    elif op == "BitXor":
                        env[d] = a ^ c
                    elif op in ("Sub", "SubUnchecked"):
                        env[d] = a - c
                    elif op in ("Add", "AddUnchecked"):
                        env[d] = a + c
                    else:
                        env[d] = None
            elif rv[0] == "un" and rv[1] == "Not":
                a = val(rv[2])
                env[d] = None if a is None else (1 - a if a in (0, 1) else None)
            elif rv[0] == "cast" and rv[1] in ("IntToInt",):
                env[d] = val(rv[2])
            else:
                env[d] = None
        t = b["t"]
        k = t["t"]
        if k == "goto":
            bi, si = t["to"], 0
            continue
        if k == "switch":
            v = val(t["on"])
            if v is None:
                raise CheckError("%s: control depends on a value that is not a function of the analysed byte (bb%d)" % (fn.name, bi))
            nxt = t["else"]
            for sv, tb in t["vals"]:
                if int(sv) == v:
                    nxt = tb
            bi, si = nxt, 0
            continue
        if k == "assert":
            bi, si = t["to"], 0
            continue
        return (("term", bi), env) if want_env else ("term", bi)
    raise CheckError("%s: evaluation did not terminate" % fn.name)


# --------------------------------------------------------------------------- emission templates (what a writer emits, per path)

def enumerate_paths(fn, start, on_call, max_paths=400, follow_errors=False, on_stmt=None, trace=False):
    """All acyclic success paths from block `start` to a return.  `on_call(term)` maps a call terminator to a token
    (or None).  `?` is followed on its Continue edge only.  Returns [(conds, tokens)] where conds records the boolean /
    Option / enum decisions taken: (description, outcome).  With trace=True every decision is also interleaved in the
    token list as ("?", description, outcome, origin), so that rules can tell what was tested *before* an emission.
    Boolean temporaries are tracked per path (`let ok = a && b; if ok {..}` assigns constants to a local on the
    branches of `a`/`b` and switches on it later): a switch on a local whose value on this path is a known constant
    follows only the feasible edge, so such a spelling yields the same paths as the nested `if`."""
    out = []

    def local_of(op):
        return op[1][0] if op[0] in ("c", "m") and len(op[1]) == 1 else None

    def step_env(env, st):
        if st[0] != "=" or len(st[1]) != 1:
            return env
        d, rv = st[1][0], st[2]
        v = None
        if rv[0] == "use":
            if rv[1][0] == "k" and rv[1][1].get("kind") == "int" and rv[1][1].get("ty") == "bool":
                v = int(rv[1][1]["v"])
            elif local_of(rv[1]) in env:
                v = env[local_of(rv[1])]
        elif rv[0] == "un" and rv[1] == "Not" and local_of(rv[2]) in env:
            iv = env[local_of(rv[2])]
            v = 1 - iv if isinstance(iv, int) else (iv[1] if iv[0] == "not" else ("not", iv))
        if v is None:
            if d in env:
                env = dict(env)
                del env[d]
            return env
        env = dict(env)
        env[d] = v
        return env

    def describe(o):
        if o[0] == "call":
            f = o[1]["f"]
            return (f.get("res_name") or f.get("name") or "?").split("<")[0] if False else (f.get("name") or "?")
        if o[0] == "param":
            return "param%d" % o[1]
        return o[0]

    def walk(bi, conds, toks, seen, env=None):
        env = env or {}
        if len(out) > max_paths:
            raise CheckError("%s: too many paths" % fn.name)
        if bi in seen:
            raise CheckError("%s: loop met while enumerating emission paths (bb%d)" % (fn.name, bi))
        seen = seen | {bi}
        b = fn.blocks[bi]
        for st in b["s"]:
            if on_stmt is not None:
                tk = on_stmt(st)
                if tk is not None:
                    toks = toks + [tk]
            env = step_env(env, st)
            if st[0] == "=" and st[1] == [0]:
                # what the function returns on this path: an explicit `Err(..)` is not a success path
                isret = st[2][0] == "agg" and st[2][1].get("def") == "core::result::Result" and st[2][1].get("vname") == "Err"
                env = dict(env)
                env["__returns_err"] = 1 if isret else 0
        t = b["t"]
        k = t["t"]
        if k == "ret":
            if env.get("__returns_err") and not follow_errors:
                return          # `match r { Err(e) => return Err(..) }`: the same exit as `r?`, spelled out
            out.append((conds, toks))
            return
        if k in ("goto", "drop", "assert"):
            return walk(t["to"], conds, toks, seen, env)
        if k == "unreach" or k == "resume":
            return
        if k == "call":
            if t["to"] is None:
                return          # diverges (panic)
            tok = on_call(t)
            if tok is not None:
                toks = toks + [tok]
            if len(t["dest"]) == 1:
                d0 = t["dest"][0]
                if fn.locals[d0]["ty"] == "bool":
                    env = dict(env)
                    env[d0] = ("call", t)          # a boolean temporary may receive a call's verdict on this path
                elif d0 in env:
                    env = dict(env)
                    del env[d0]
            return walk(t["to"], conds, toks, seen, env)
        if k == "switch":
            if t.get("ty") == "bool" and isinstance(env.get(local_of(t["on"])), int):
                # boolean temporary with a known value on this path: only the feasible edge
                v = env[local_of(t["on"])]
                nxt = t["else"]
                for sv, tb in t["vals"]:
                    if int(sv) == v:
                        nxt = tb
                return walk(nxt, conds, toks, seen, env)
            bs0 = bool_switch(fn, bi)
            if t.get("ty") == "bool" and local_of(t["on"]) in env and not (bs0 and bs0[0][0] in ("call", "const")):
                # boolean temporary that holds, on this path, the verdict of a call (last operand of a `&&`/`||` chain
                # bound by `let`): the decision is that call's
                ev, neg = env[local_of(t["on"])], False
                while ev[0] == "not":
                    ev, neg = ev[1], not neg
                vals = dict((sv, tb) for sv, tb in t["vals"])
                false_t, true_t = (vals["0"], t["else"]) if "0" in vals else (t["else"], vals.get("1"))
                if neg:
                    true_t, false_t = false_t, true_t
                d = describe(ev)
                walk(true_t, conds + [(d, True, ev)], toks + ([("?", d, True, ev)] if trace else []), seen, env)
                walk(false_t, conds + [(d, False, ev)], toks + ([("?", d, False, ev)] if trace else []), seen, env)
                return
            bs = bool_switch(fn, bi)
            if bs:
                o = bs[0]
                d = describe(o)
                if o[0] == "const":
                    v = o[1].get("v") == "1"
                    return walk(bs[1] if v else bs[2], conds, toks, seen, env)
                walk(bs[1], conds + [(d, True, o)], toks + ([("?", d, True, o)] if trace else []), seen, env)
                walk(bs[2], conds + [(d, False, o)], toks + ([("?", d, False, o)] if trace else []), seen, env)
                return
            var = t.get("variants")
            o = fn.origin(t["on"])
            src = None
            if o[0] == "rvalue" and o[1][0] == "discr":
                sd = fn.single_def(o[1][1][0])
                if sd is not None and sd[2][0] == "call":
                    src = ("call", sd[2][1], sd[0])
                else:
                    # discriminant of (a projection of) a parameter: say which one
                    po = provenance(fn, ["c", o[1][1]], transparent=())[-1]
                    rest = ()
                    for _ in range(4):
                        # through a tuple built from the operands (`match (a, b)`): field k of the tuple is operand k
                        if po[0] == "place" and len(po[1]) >= 2 and re.match(r"f\d+:", str(po[1][1])):
                            sd2 = fn.single_def(po[1][0])
                            k2 = int(re.match(r"f(\d+):", po[1][1]).group(1))
                            if sd2 is not None and sd2[2][0] == "agg" and sd2[2][1].get("k") == "tuple" and k2 < len(sd2[2][2]):
                                rest = tuple(x for x in po[1][2:] if x != "*") + rest
                                po = provenance(fn, sd2[2][2][k2], transparent=())[-1]
                                continue
                        break
                    if po[0] == "param":
                        src = ("param", po[1], tuple(x for x in po[2] if x != "*") + rest)
            if var and var["enum"] == "core::ops::control_flow::ControlFlow" and not follow_errors:
                for v, tb in t["vals"]:
                    if var["names"].get(v) == "Continue":
                        return walk(tb, conds, toks, seen, env)
                return walk(t["else"], conds, toks, seen, env)
            names = var["names"] if var else {}
            d = describe(src) if src and src[0] == "call" else "switch"
            taken = set()
            for v, tb in t["vals"]:
                taken.add(v)
                walk(tb, conds + [(d, names.get(v, v), src)], toks + ([("?", d, names.get(v, v), src)] if trace else []), seen, env)
            rest = [n for v, n in names.items() if v not in taken]
            if not var or rest:
                # the otherwise edge stands for the remaining variants
                tgt = fn.blocks[t["else"]]
                if tgt["t"]["t"] != "unreach":
                    oth = "|".join(sorted(rest)) or "otherwise"
                    walk(t["else"], conds + [(d, oth, src)], toks + ([("?", d, oth, src)] if trace else []), seen, env)
            return
        raise CheckError("%s: unsupported terminator %s" % (fn.name, k))
    walk(start, [], [], frozenset())
    return out


def const_bytes_of(fn, operand):
    """string value of a byte/str constant operand (through unsize casts), else None"""
    o = provenance(fn, operand, transparent=())[-1]
    if o[0] == "const" and o[1].get("kind") == "str":
        v = o[1]["v"]
        return v if isinstance(v, str) else bytes(v).decode("latin-1")
    return None


def closure_upvars(facts, cfn):
    """for a closure body: list (by upvar index) of the provenance origin, in the parent function, of each captured value"""
    parent = facts.fns.get(cfn.parent)
    if parent is None:
        return []
    for b in parent.blocks:
        for st in b["s"]:
            if st[0] == "=" and st[2][0] == "agg" and st[2][1].get("k") == "closure" and st[2][1].get("def") == cfn.id:
                return [provenance(parent, op, transparent=())[-1] for op in st[2][2]]
    return []


def upvar_index(cfn, operand):
    """index of the captured variable an operand of a closure body refers to (through derefs/reborrows), or None"""
    o = provenance(cfn, operand, transparent=())[-1]
    if o[0] == "param" and o[1] == 1:
        fs = [p for p in o[2] if p != "*"]
        if fs:
            m = re.match(r"f(\d+):", fs[0])
            if m:
                return int(m.group(1))
    return None


def root_local(fn, operand):
    """the local whose storage an operand ultimately refers to, following `&`, reborrows and plain moves"""
    if operand[0] == "k":
        return None, []
    l = operand[1][0]
    path = list(operand[1][1:])
    for _ in range(20):
        sd = fn.single_def(l)
        if sd is None:
            break
        rv = sd[2]
        if rv[0] == "ref":
            l, path = rv[2][0], list(rv[2][1:]) + path
        elif rv[0] == "cfd":
            l, path = rv[1][0], list(rv[1][1:]) + path
        elif rv[0] == "use" and rv[1][0] in ("c", "m"):
            l, path = rv[1][1][0], list(rv[1][1][1:]) + path
        elif rv[0] == "call" and rv[1]["args"] and rv[1]["args"][0][0] != "k" and call_name_matches(
                rv[1], r"ops::Deref(Mut)?>?::deref(_mut)?$|::as_(mut_)?slice$|::as_mut$|::as_ref$|borrow::Borrow(Mut)?>?::borrow(_mut)?$"):
            a = rv[1]["args"][0][1]
            l, path = a[0], list(a[1:]) + path
        else:
            break
    return l, [p for p in path if p != "*"]
