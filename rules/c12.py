"""C12 — JSON-LD serialisation: expressibility filter and totality of the engine."""
import re
import panics
from core import CheckError
from mirutil import call_name_matches, provenance, bool_switch, edge_dominates, enumerate_paths, closure_upvars, root_local

LEVEL = "other"
EXPLANATION = (
    "Decides the expressibility filter and the totality of the serializer engine (C12). (R12.1) which quads are omitted: QuadJsonLdUtil::is_jsonld is the conjunction "
    "s.is_subject() && p.is_iri() && o.is_object() && g.is_none_or(is_subject), the kind tables of is_subject / is_object / "
    "is_bnode are {Iri,BlankNode} / {Iri,BlankNode,Literal} / {BlankNode} (each predicate decided for all five kinds, "
    "whether written as matches!, == or a combination), and in "
    "Engine::process_quads the only path that returns without recording the quad is the false edge of is_jsonld(). "
    "(R12.2) panic audit of the whole serializer (engine, rdf_object, util_traits): every unwrap, panic macro, map `[key]`, "
    "slice and vector index is auto-discharged (constant index behind a `len() == 1` test, full-range slice, accessor under "
    "the matching kind), or audited by exact key with the data-structure invariant it relies on; anything else is a "
    "violation. (R12.3) the unique-parent bookkeeping used for list detection forgets an existing parent iff it differs "
    "from the new (subject, predicate) in any component. (R12.4) the `@type` key is chosen only under `p == rdf:type && "
    "obj.is_iri() && !use_rdf_type`. (R12.5) a quad of a named graph always registers its subject under the graph node's "
    "@graph entry. (R12.8) is_list_node / is_compound_literal inspect a property only when it has exactly one value. (R12.7) jsonify leaves a list node out only in the graph of the list's parent (the set of list nodes is keyed by label, nodes by (graph, label)). (R12.6) native JSON numbers / booleans are produced only under use_native_types(). NOT decided: list detection/suppression, named-graph placement, and every round-trip equality.")

TABLE = {
    # --- node indexes
    "serializer::engine::Engine::<'a, L>::process_quads::{closure#0}#index:Vec:call:serializer::engine::Engine::<'a, L>::index":
        (2, "index returned by Engine::index: either found in self.index or gs_id.len() before gs_id and node are both pushed"),
    "serializer::engine::Engine::<'a, L>::into_json::{closure#0}#index:Vec:param2":
        (2, "inode comes from enumerate() over self.node; and `gs_id[*is]` for `is` taken from compound_literals, which process_quads "
            "fills with indexes returned by Engine::index (gs_id and node have equal length)"),
    "serializer::engine::Engine::<'a, L>::into_json::{closure#0}::{closure#0}#index:Vec:param2.f0:":
        (1, "gs_id[*iparent]: iparent is the node index stored in unique_parent by process_quads (produced by Engine::index)"),
    "serializer::engine::Engine::<'a, L>::into_json#index:Vec:proj-of-call:std::collections::HashMap::<K, V, S, A>::get":
        (1, "gs_id[*iparent] in the anchoring pass: iparent is a value of list_node, i.e. a node index mark_list_node copied from "
            "unique_parent (produced by Engine::index)"),
    "serializer::engine::Engine::<'a, L>::into_json::{closure}#index:HashMap:param2":
        (1, "anchored[label] in list_node.retain: the anchoring loop inserts every key of list_node into `anchored` (each key either is "
            "already known or is pushed on `path`, and every label on `path` is inserted when its walk ends)"),
    "serializer::engine::Engine::<'a, L>::jsonify#index:Vec:param2":
        (1, "inode is an index of self.node (enumerate() or an RdfObject::Node payload, both produced by Engine::index); gs_id and node have equal length"),
    "serializer::engine::Engine::<'a, L>::jsonify::{closure}#index:Vec:param2":
        (1, "gs_id[iparent]: iparent is a node index recorded by process_quads in unique_parent / list_node; gs_id and node only grow"),
    "serializer::engine::Engine::<'a, L>::jsonify::{closure#0}#index:Vec:param2.Node.0":
        (1, "RdfObject::Node payload: produced by Engine::index"),
    "serializer::engine::Engine::<'a, L>::convert_rdf_object#index:Vec:param2.Node.0":
        (1, "RdfObject::Node payload: produced by Engine::index"),
    "serializer::engine::Engine::<'a, L>::mark_list_node#index:Vec:place":
        (2, "inode is a list seed or a unique parent, both indexes produced by Engine::index"),
    "serializer::engine::Engine::<'a, L>::mark_list_node#index:Vec:proj-of-call:std::collections::HashMap::<K, V, S, A>::get":
        (1, "iparent stored in unique_parent was produced by Engine::index"),
    "serializer::engine::Engine::<'a, L>::populate_list#index:Vec:place":
        (1, "inode is the payload of an RdfObject::Node (head) or of the rdf:rest object of a list node"),
    # --- map lookups behind structural guards
    "serializer::engine::Engine::<'a, L>::populate_list#index:HashMap:key:2/22-rdf-syntax-ns#first":
        (1, "only nodes in list_node are walked, and is_list_node() required exactly one rdf:first; the successor of a list node "
            "through rdf:rest is rdf:nil or a node that mark_list_node marked before (it walks from the seed backwards)"),
    "serializer::engine::Engine::<'a, L>::populate_list#index:HashMap:key:02/22-rdf-syntax-ns#rest":
        (1, "as for rdf:first"),
    "serializer::engine::Engine::<'a, L>::populate_list#index:Vec:const:0":
        (2, "is_list_node() required len() == 1 for rdf:first and rdf:rest"),
    "serializer::engine::Engine::<'a, L>::convert_rdf_object#index:HashMap:key:2/22-rdf-syntax-ns#value":
        (1, "only for nodes in compound_literals, which into_json retains iff is_compound_literal() (exactly one rdf:value)"),
    "serializer::engine::Engine::<'a, L>::convert_rdf_object#index:HashMap:key:-rdf-syntax-ns#direction":
        (1, "as for rdf:value"),
    "serializer::engine::Engine::<'a, L>::convert_rdf_object#index:Vec:const:0":
        (3, "is_compound_literal() required len() == 1 for rdf:value, rdf:direction and (if present) rdf:language"),
    # --- unwraps
    "serializer::engine::Engine::<'a, L>::convert_rdf_object#unwrap:unwrap:call:std::iter::Iterator::next":
        (1, "first element of str::splitn(2, ..), which always yields at least one item"),
    "serializer::engine::Engine::<'a, L>::convert_rdf_object#unwrap:unwrap:call:json_syntax::Parse::parse_str":
        (1, "second parse of the same text whose first parse succeeded (`?` on the line before)"),
    "serializer::engine::Engine::<'a, L>::convert_rdf_object#unwrap:unwrap:call:json_syntax::Value::<M>::as_object_mut":
        (1, "the value was just built by the json! macro as an object literal"),
    "serializer::engine::Engine::<'a, L>::make_rdf_object#unwrap:unwrap:call:sophia_api::term::TryFromTerm::try_from_term":
        (1, "on the branch `o.kind() == Literal`, and RdfObject::try_from_term fails only for non-literals"),
    "serializer::engine::Engine::<'a, L>::make_node_object::{closure#0}#panic-call:unreachable:-":
        (1, "values under the pseudo-key \"@type\" are only pushed by process_quads when obj.is_iri(), i.e. RdfObject::Node"),
    "serializer::engine::Engine::<'a, L>::mark_list_node#panic-call:debug_assert:core::str::<impl str>::starts_with":
        (1, "list seeds are recorded only for blank-node subjects (q.s().is_bnode()), whose id is `_:` + label; parents are followed "
            "only if ps_id.starts_with(\"_:\")"),
    "<T as util_traits::TermJsonLdUtil>::as_id#panic-call:panic:-":
        (1, "as_id is applied to s, g (is_subject), p (is_iri) and non-literal objects (is_object) of quads that passed is_jsonld()"),
}

KINDS = {"is_subject": {"Iri", "BlankNode"}, "is_object": {"Iri", "BlankNode", "Literal"}, "is_bnode": {"BlankNode"}}


def true_kinds(fn):
    """variants of the TermKind switch that lead to `_0 = true`"""
    for b in fn.blocks:
        t = b["t"]
        if t["t"] == "switch" and (t.get("variants") or {}).get("enum", "").endswith("term::TermKind"):
            names = t["variants"]["names"]

            def const_of(target, seen=()):
                for s in fn.blocks[target]["s"]:
                    if s[0] == "=" and s[1] == [0] and s[2][0] == "use" and s[2][1][0] == "k":
                        return s[2][1][1].get("v") == "1"
                tt = fn.blocks[target]["t"]
                if tt["t"] == "goto" and target not in seen:
                    return const_of(tt["to"], seen + (target,))
                return None
            out = set()
            for v, tb in t["vals"]:
                if const_of(tb):
                    out.add(names.get(v, v))
            if const_of(t["else"]):
                out |= set(names.values()) - {names.get(v, v) for v, _ in t["vals"]}
            return out
    return None


def filter_rule(ck, facts):
    for name, want in KINDS.items():
        fns = facts.find_fns(crate="sophia_jsonld", name_re=r"util_traits::TermJsonLdUtil>::%s$" % name)
        if len(fns) != 1:
            ck.bad("R12.1", "R12.1@%s#anchor" % name, "anchor-missing: TermJsonLdUtil::%s (%d)" % (name, len(fns)))
            continue
        import termimpls
        pred = termimpls.kind_predicate(facts, fns[0])
        got = {k for k, v in pred.items() if v} if pred is not None else true_kinds(fns[0])
        if got == want:
            ck.ok("R12.1", "%s = kind in %s" % (name, sorted(want)))
        else:
            ck.bad("R12.1", "R12.1@%s#kinds" % name, "%s accepts kinds %s, the JSON-LD data model needs %s" % (name, sorted(got) if got else got, sorted(want)), fns[0].loc)
    fns = facts.find_fns(crate="sophia_jsonld", name_re=r"util_traits::QuadJsonLdUtil>::is_jsonld$")
    if len(fns) != 1:
        ck.bad("R12.1", "R12.1@is_jsonld#anchor", "anchor-missing: QuadJsonLdUtil::is_jsonld (%d)" % len(fns))
    else:
        fn = fns[0]

        def on_stmt(st):
            if st[0] == "=" and st[1] == [0] and st[2][0] == "use":
                if st[2][1][0] == "k":
                    return "ret:%s" % (st[2][1][1].get("v") == "1")
                return "ret:last"
            return None

        def on_call(t):
            if t["dest"] == [0]:
                return "ret:last"
            return None
        try:
            paths = enumerate_paths(fn, 0, on_call, on_stmt=on_stmt)
        except CheckError as e:
            ck.bad("R12.1", "R12.1@is_jsonld#shape", str(e), fn.loc)
            paths = []
        tests = []
        accepting = []
        for conds, toks in paths:
            res = [t for t in toks if t.startswith("ret:")]
            names = [(d.split("::")[-1], o) for d, o, s in conds]
            if res and res[-1] in ("ret:last", "ret:True"):
                accepting.append(names)
        # the accepting path: is_subject, is_iri, is_object all true, result = is_none_or(..)
        want = [("is_subject", True), ("is_iri", True), ("is_object", True)]
        roles = []
        for bi, t in fn.calls():
            m = re.search(r"::(is_subject|is_iri|is_object|is_none_or)$", t["f"].get("name") or "")
            if m:
                src = provenance(fn, t["args"][0])
                role = None
                for o in src:
                    if o[0] == "call":
                        mm = re.search(r"Quad>?::(s|p|o|g)$", o[1]["f"].get("name") or "")
                        if mm:
                            role = mm.group(1)
                roles.append((m.group(1), role))
        ok_roles = sorted(roles) == sorted([("is_subject", "s"), ("is_iri", "p"), ("is_object", "o"), ("is_none_or", "g")])
        if len(accepting) == 1 and accepting[0] == want and ok_roles:
            ck.ok("R12.1", "is_jsonld = s.is_subject() && p.is_iri() && o.is_object() && g.is_none_or(..)")
        else:
            ck.bad("R12.1", "R12.1@is_jsonld#conjunction", "is_jsonld is not the expected conjunction (accepting paths %s, tests %s)" % (accepting, sorted(roles)), fn.loc)
        clos = facts.with_closures(fn)[1:]
        if not (len(clos) == 1 and any(call_name_matches(t, r"TermJsonLdUtil>?::is_subject$") and t["dest"] == [0] for _, t in clos[0].calls())):
            ck.bad("R12.1", "R12.1@is_jsonld#graph-name", "the graph-name test is not `is_none_or(|g| g.is_subject())`", fn.loc)
    # process_quads: the only silent return is the false edge of is_jsonld
    fns = facts.find_fns(crate="sophia_jsonld", name_re=r"engine::Engine::<'a, L>::process_quads$")
    if len(fns) != 1:
        ck.bad("R12.1", "R12.1@process_quads#anchor", "anchor-missing: Engine::process_quads (%d)" % len(fns))
        return
    clos = [c for c in facts.with_closures(fns[0])[1:] if any(call_name_matches(t, r"QuadJsonLdUtil>?::is_jsonld$") for _, t in c.calls())]
    if len(clos) != 1:
        ck.bad("R12.1", "R12.1@process_quads#closure", "cannot find the per-quad closure calling is_jsonld (%d)" % len(clos), fns[0].loc)
        return
    c = clos[0]

    def tok(t):
        if call_name_matches(t, r"engine::Engine::<'a, L>::index$"):
            return "index"
        if call_name_matches(t, r"HashMapUtil<T>>?::push_if_new$|util_traits::HashMapUtil"):
            return "record"
        return None
    def stm(st):
        if st[0] == "=" and st[2][0] == "use" and st[2][1][0] == "k" and st[2][1][1].get("kind") == "str" and st[2][1][1].get("v") in ("@type", "@graph"):
            return "const:" + st[2][1][1]["v"]
        return None

    def tok2(t):
        for a in t["args"]:
            o = c.origin(a) if a[0] != "k" else ("const", a[1])
            if o[0] == "const" and o[1].get("kind") == "str" and o[1].get("v") in ("@type", "@graph"):
                base = tok(t)
                return "const:" + o[1]["v"] + ("+record" if base == "record" else "")
        r = tok(t)
        if r:
            return r
        if call_name_matches(t, r"Option::<T>::take$"):
            return "take"
        return None
    try:
        paths = enumerate_paths(c, 0, tok2, max_paths=5000, on_stmt=stm)
    except CheckError as e:
        ck.bad("R12.1", "R12.1@process_quads#shape", str(e), c.loc)
        return
    # R12.4: the pseudo-key "@type" is used only for IRI objects of rdf:type (and not with use_rdf_type)
    n_type = 0
    for conds, toks in paths:
        cs = [(d.split("::")[-1], o) for d, o, s_ in conds]
        if any(x.startswith("const:@type") for x in toks):
            n_type += 1
            if ("is_iri", True) not in cs or ("use_rdf_type", False) not in cs or not any(d == "eq" and o is True for d, o in cs):
                ck.bad("R12.4", "R12.4@process_quads#type-key", "`@type` is chosen as key on a path without `rdf:type == p && obj.is_iri() && "
                       "!use_rdf_type` (conditions: %s): a non-IRI value under @type is rendered as a bare id (make_node_object) and any "
                       "list/literal structure behind it is lost" % cs, c.loc)
                break
    else:
        if n_type:
            ck.ok("R12.4", "`@type` key only under rdf:type == p && obj.is_iri() && !use_rdf_type (%d paths)" % n_type)
        else:
            ck.bad("R12.4", "R12.4@process_quads#type-key-missing", "no path uses the `@type` key", c.loc)
    # R12.5: a quad of a named graph always registers its subject under the graph node's @graph entry
    missing = []
    n_g = 0
    for conds, toks in paths:
        cs = [(d.split("::")[-1], o) for d, o, s_ in conds]
        if ("is_jsonld", True) in cs:
            # if-form (`q.g().is_some()`) or match-form (`if let Some(g) = q.g()`) of the named-graph test
            tested = [o for d, o in cs if d in ("is_some", "is_none") or (d == "g" and o in ("Some", "None"))]
            if not tested:
                missing.append(cs)       # recorded without even asking whether the quad is in a named graph
                continue
            if ("is_some", True) in cs or ("is_none", False) in cs or ("g", "Some") in cs:
                n_g += 1
                if not any(x.startswith("const:@graph") for x in toks):
                    missing.append(cs)
    if missing:
        ck.bad("R12.5", "R12.5@process_quads#graph-registration", "a quad of a named graph can be recorded without registering its subject under "
               "the graph's @graph entry (conditions %s): the node is then never emitted" % missing[0], c.loc)
    elif n_g:
        ck.ok("R12.5", "named-graph quads always register their subject under @graph (%d paths)" % n_g)
    else:
        ck.bad("R12.5", "R12.5@process_quads#graph-test-missing", "no path tests q.g().is_some()", c.loc)
    silent = [[(d.split("::")[-1], o) for d, o, s in conds] for conds, toks in paths if not any("record" in x for x in toks)]
    bad = [s for s in silent if ("is_jsonld", False) not in s]
    kept = [1 for conds, toks in paths if any("record" in x for x in toks) and ("is_jsonld", False) in [(d.split("::")[-1], o) for d, o, s in conds]]
    if silent and not bad and not kept:
        ck.ok("R12.1", "process_quads: a quad is skipped iff !is_jsonld() (%d paths)" % len(paths))
    else:
        ck.bad("R12.1", "R12.1@process_quads#silent-drop", "a quad can be left unrecorded on a path where is_jsonld() held: %s" % bad[:2], c.loc)


def unique_parent_rule(ck, facts):
    """R12.3: in the and_modify closure of unique_parent, an existing parent is dropped iff it differs from the new one
    in ANY component (subject slot or predicate)."""
    fns = facts.find_fns(crate="sophia_jsonld", name_re=r"engine::Engine::<'a, L>::process_quads::\{closure#0\}::\{closure#\d+\}$")
    cands = [(f, 0) for f in fns if any(call_name_matches(t, r"Option::<T>::take$") for _, t in f.calls())]
    PARENT_TY = "(usize, std::boxed::Box<str>)"

    def is_reset_stmt(f, st):
        """`*slot = None` on an Option<(usize, Box<str>)>"""
        if not (st[0] == "=" and len(st[1]) >= 2 and st[1][-1] == "*" and PARENT_TY in f.locals[st[1][0]]["ty"]):
            return False
        rv = st[2]
        if rv[0] == "agg":
            return rv[1].get("vname") == "None"
        if rv[0] == "use" and rv[1][0] != "k":
            o = f.origin(rv[1])
            return o[0] == "agg" and o[1].get("vname") == "None"
        return False
    if not cands:
        # the same update written as an explicit `match map.entry(k) { Vacant(..) => .., Occupied(..) => .. }` in the per-quad closure
        for f in facts.find_fns(crate="sophia_jsonld", name_re=r"engine::Engine::<'a, L>::process_quads::\{closure#0\}$"):
            for bi, b in enumerate(f.blocks):
                t = b["t"]
                if t["t"] == "switch" and re.search(r"hash(_map|::map)::Entry$", str((t.get("variants") or {}).get("enum", ""))):
                    names = t["variants"]["names"]
                    occ = [tb for v, tb in t["vals"] if names.get(v) == "Occupied"] or [t["else"]]
                    if any(is_reset_stmt(f, st) for x in f.reachable(occ[0]) for st in f.blocks[x]["s"]):
                        cands.append((f, occ[0]))
    if len(cands) != 1:
        ck.bad("R12.3", "R12.3@unique_parent#anchor", "anchor-missing: the update of unique_parent that forgets a parent (%d)" % len(cands))
        return
    c, start = cands[0]

    def tok(t):
        if call_name_matches(t, r"Option::<T>::take$"):
            return "take"
        return None

    def stm(st):
        return "take" if is_reset_stmt(c, st) else None
    try:
        paths = enumerate_paths(c, start, tok, on_stmt=stm, max_paths=4000)
    except CheckError as e:
        ck.bad("R12.3", "R12.3@unique_parent#shape", str(e), c.loc)
        return
    if start:
        # only the comparisons of two parents count (the closure goes on with unrelated tests)
        paths = [([cd for cd in conds if not re.search(r"PartialEq(<.*>)?>?::(ne|eq)$", cd[0])
                   or (cd[2][0] == "call" and PARENT_TY in " ".join(cd[2][1]["f"].get("substs") or []))], toks) for conds, toks in paths]
    cmp_names = set()
    table = {}
    for conds, toks in paths:
        cs = []
        for d, o, s_ in conds:
            if re.search(r"PartialEq(<.*>)?>?::(ne|eq)$", d):
                neq = o if d.endswith("::ne") else (not o)
                cs.append(neq)
                cmp_names.add(d)
        if any(d.endswith("Option") or o in ("Some", "None") for d, o, s_ in conds) and [o for d, o, s_ in conds if o == "None"]:
            continue
        table[tuple(cs)] = "take" in toks
    # drop iff at least one comparison says "different"; keep iff all say "same"
    ok = bool(table)
    for cs, took in table.items():
        if not cs:
            continue
        if took != any(cs):
            # with short-circuit `||`, a path (True,) [first differs] takes; (False, True) takes; (False, False) keeps
            ok = False
    if ok and any(table.values()) and not all(table.values()):
        ck.ok("R12.3", "unique_parent: an existing parent is forgotten iff it differs from the new (subject, predicate) in any component")
    else:
        ck.bad("R12.3", "R12.3@unique_parent#reset-condition", "the reset of unique_parent is not `existing != new` component-wise-OR "
               "(truth table of the comparisons -> take(): %s): a node with two different parents can stay 'unique' and be inlined twice"
               % sorted(table.items()), c.loc)


def native_types_rule(ck, facts):
    """R12.6: literals are converted to native JSON numbers / booleans only under `use_native_types`: in
    Engine::convert_rdf_object every lossy native conversion attempt (`str::parse` of the lexical form) is dominated by the
    true edge of `options.use_native_types()`.  (A guard flattened into `native && A || B` lets case B through in the lossless
    default, and `"1.0E0"^^xsd:double` then comes back as `1`.)"""
    fns = facts.find_fns(crate="sophia_jsonld", name_re=r"serializer::engine::Engine::<'a, L>::convert_rdf_object$")
    if len(fns) != 1:
        ck.bad("R12.6", "R12.6@convert_rdf_object#anchor", "anchor-missing: Engine::convert_rdf_object (%d)" % len(fns))
        return
    fn = fns[0]
    guards = []
    for bi in range(len(fn.blocks)):
        bs = bool_switch(fn, bi)
        if bs and bs[0][0] == "call" and call_name_matches(bs[0][1], r"JsonLdOptions::<LF>::use_native_types$"):
            guards.append((bi, bs[1]))
    parses = [(bi, t) for bi, t in fn.calls() if call_name_matches(t, r"^core::str::<impl str>::parse$|str>::parse$")]
    if not guards or not parses:
        ck.bad("R12.6", "R12.6@convert_rdf_object#shape", "expected a test of use_native_types() and native conversions (str::parse) in "
               "convert_rdf_object (found %d / %d)" % (len(guards), len(parses)), fn.loc)
        return
    bad = [(bi, t) for bi, t in parses if not any(edge_dominates(fn, g, bi) for g in guards)]
    if bad:
        ck.bad("R12.6", "R12.6@convert_rdf_object#unguarded-native-conversion", "a literal can be converted to a native JSON value without "
               "use_native_types being set (the conversion is lossy: lexical forms such as 1.0E0 or 1.50 do not survive)",
               "%s:%s" % (bad[0][1]["file"], bad[0][1]["line"]))
    else:
        ck.ok("R12.6", "convert_rdf_object: %d native conversions, all under use_native_types() == true" % len(parses))


def list_suppression_rule(ck, facts):
    """R12.7: nodes are identified by (graph, label) (`index`, `gs_id`), the set of list nodes by label only; so the test by
    which `jsonify` leaves a list node out must also compare the graph of the node with the graph of the list's parent.
    A bare lookup of the label suppresses the node of every graph that has this label, and the quads it carries there are
    lost (4 quads in, 3 out)."""
    fns = facts.find_fns(crate="sophia_jsonld", name_re=r"serializer::engine::Engine::<'a, L>::jsonify$")
    if len(fns) != 1:
        ck.bad("R12.7", "R12.7@jsonify#anchor", "anchor-missing: Engine::jsonify (%d)" % len(fns))
        return
    fn = fns[0]
    lookups = []
    graph_eq = 0
    for f in facts.with_closures(fn):
        for bi, t in f.calls():
            if call_name_matches(t, r"HashMap::<K, V, S(, A)?>::(get|contains_key)$") and t["args"] and t["args"][0][0] != "k":
                src = provenance(f, t["args"][0], transparent=())[-1]
                if src[0] == "param" and any(str(p).endswith(":list_node") for p in src[2]):
                    lookups.append((f, t))
            if call_name_matches(t, r"cmp::PartialEq(<.*>)?>?::(eq|ne)$") and len(t["args"]) == 2:
                # an equality between two graph ids: one side is component 0 of an element of gs_id
                for a in t["args"]:
                    if a[0] == "k":
                        continue
                    for o in provenance(f, a, transparent=()):
                        pl = o[1] if o[0] == "place" else None
                        if o[0] == "call" and call_name_matches(o[1], r"ops::Index<.*>>?::index$|ops::Index<I> for"):
                            base = provenance(f, o[1]["args"][0], transparent=())[-1]
                            if base[0] == "param" and any(str(p).endswith(":gs_id") for p in base[2]) and f is not fn:
                                graph_eq += 1
    if not lookups:
        ck.bad("R12.7", "R12.7@jsonify#shape", "jsonify does not look list nodes up in list_node", fn.loc)
    elif any(call_name_matches(t, r"::contains_key$") for _, t in lookups) or not graph_eq:
        f, t = lookups[0]
        ck.bad("R12.7", "R12.7@jsonify#label-only-suppression", "jsonify leaves a node out because its *label* is the label of a list node, "
               "without comparing graphs: the node with that label in another graph is dropped with all its quads",
               "%s:%s" % (t["file"], t["line"]))
    else:
        ck.ok("R12.7", "jsonify: a list node is left out only when its graph is the graph of the list's parent")


def _len_is_one_edges(c):
    """(block, successor) edges on which a `len()` of a Vec / slice is known to be exactly 1: the true edge of `len() == 1`,
    the false edge of `len() != 1`"""
    out = []
    for bi in range(len(c.blocks)):
        tt = c.blocks[bi]["t"]
        if tt["t"] == "switch" and tt.get("ty") == "bool" and tt["on"][0] != "k":
            sd = c.single_def(tt["on"][1][0])
            if sd is not None and sd[2][0] == "bin" and sd[2][1] in ("Eq", "Ne"):
                a, b = c.origin(sd[2][2]), c.origin(sd[2][3])
                one = [x for x in (a, b) if x[0] == "const" and x[1].get("v") == "1"]
                ln = [x for x in (a, b) if x[0] == "call" and call_name_matches(x[1], r"Vec::<T, A>::len$|slice::<impl \[T\]>::len$")]
                if one and ln:
                    vals = dict((v, tb) for v, tb in tt["vals"])
                    true_t = tt["else"] if "0" in vals else vals.get("1")
                    false_t = vals.get("0") if "0" in vals else tt["else"]
                    out.append((bi, true_t if sd[2][1] == "Eq" else false_t))
    return out


def singleton_rule(ck, facts):
    """R12.8: a node is folded into a `@list` (or a compound literal) only if each of the properties inspected has *exactly
    one* value: in is_list_node / is_compound_literal every inspection of an element of a value vector (eq_node, is_node,
    is_literal ... on `v[0]`) happens on an edge where `len() == 1` is established (true edge of `==`, false edge of `!=`),
    whether the test is written inside an `is_some_and` closure or as a guard clause of the function.  (`any(..)` over the
    values of `@type` would suppress a cell that also carries another type, and lose that statement.)"""
    n = 0
    for name in ("is_list_node", "is_compound_literal"):
        fns = facts.find_fns(crate="sophia_jsonld", name_re=r"^serializer::engine::%s$" % name)
        if len(fns) != 1:
            ck.bad("R12.8", "R12.8@%s#anchor" % name, "anchor-missing: %s (%d)" % (name, len(fns)))
            continue
        for c in facts.with_closures(fns[0]):
            lens = _len_is_one_edges(c)
            is_closure = c.kind == "Closure"
            n += len(lens)
            direct = False
            for bk in c.blocks:
                for st in bk["s"]:
                    if st[0] == "=" and st[1] == [0] and st[2][0] == "bin" and st[2][1] == "Eq":
                        a, b = c.origin(st[2][2]), c.origin(st[2][3])
                        if any(x[0] == "const" and x[1].get("v") == "1" for x in (a, b)) and \
                                any(x[0] == "call" and call_name_matches(x[1], r"Vec::<T, A>::len$|slice::<impl \[T\]>::len$") for x in (a, b)):
                            direct = True
            if is_closure:
                others = [(bi, t) for bi, t in c.calls() if not call_name_matches(t, r"::len$")]
            else:
                # in the function body: element accesses and what is done with the elements
                idx = [(bi, t) for bi, t in c.calls() if call_name_matches(t, r"ops::Index<.*>>?::index$") and len(t["args"]) > 1
                       and c.origin(t["args"][1])[0] == "const"]
                dests = {t["dest"][0] for _, t in idx if t["dest"]}
                elem = [(bi, t) for bi, t in c.calls() if t["args"] and any(p_[0] == "call" and p_[1]["dest"] and p_[1]["dest"][0] in dests
                                                                         for p_ in provenance(c, t["args"][0])) and (bi, t) not in idx]
                others = idx + elem
                if not others and not lens:
                    continue          # the body only dispatches to closures
            if direct and not others:
                n += 1
                ck.ok("R12.8", "%s: the verdict is `len() == 1` itself (%s)" % (name, c.name.split("::")[-1]))
                continue
            if others and not lens:
                ck.bad("R12.8", "R12.8@%s#no-singleton-test" % name, "a value vector is inspected in %s without requiring exactly one value" % name, c.loc)
            elif any(not any(edge_dominates(c, e, bi) for e in lens) for bi, _ in others):
                ck.bad("R12.8", "R12.8@%s#test-not-guarding" % name, "in %s a value is inspected outside the `len() == 1` branch" % name, c.loc)
            else:
                ck.ok("R12.8", "%s: values inspected only when there is exactly one (%s)" % (name, c.name.split("::")[-1]))
    ck.floor("R12.8", "exactly-one-value tests in is_list_node / is_compound_literal", n, 6)


def label_keeping_rule(ck, facts):
    """R12.9: a blank node that cannot be anonymous is never folded into `@list`.  Folding requires a unique parent
    (`unique_parent[label]` is Some); process_quads must therefore *poison* the entry (insert None) for (a) a blank node that
    names a graph and (b) a blank node that is a subject in more than one graph - otherwise the one blank node comes back as two."""
    fns = facts.find_fns(crate="sophia_jsonld", name_re=r"Engine::<'a, L>::process_quads$")
    if len(fns) != 1:
        ck.bad("R12.9", "R12.9@process_quads#anchor", "anchor-missing (%d)" % len(fns))
        return
    clos = [c for c in facts.with_closures(fns[0])[1:] if any(call_name_matches(t, r"QuadJsonLdUtil>?::is_jsonld$") for _, t in c.calls())]
    if len(clos) != 1:
        ck.bad("R12.9", "R12.9@process_quads#anchor", "anchor-missing: the per-quad closure (%d)" % len(clos), fns[0].loc)
        return
    c = clos[0]
    def poisons(f, t):
        """`self.unique_parent.insert(key, None)`"""
        if not call_name_matches(t, r"HashMap::<K, V, S, A>::insert$|HashMap::<K, V, S>::insert$") or len(t["args"]) < 3:
            return False
        recv = root_local(f, t["args"][0])
        if not recv or not any(str(p_).endswith(":unique_parent") for p_ in recv[1]):
            return False
        v = f.origin(t["args"][2])
        return v[0] == "agg" and v[1].get("vname") == "None"
    # small helper methods of the engine that do nothing but poison an entry
    helpers = {f.id for f in facts.fns.values() if f.crate == "sophia_jsonld" and f.kind != "Closure" and len(f.blocks) <= 10
               and any(poisons(f, t) for _, t in f.calls())}
    classes = set()
    for bi, t in c.calls():
        if not (poisons(c, t) or (t["f"].get("res") or t["f"].get("def")) in helpers):
            continue
        for gb in range(len(c.blocks)):
            bs = bool_switch(c, gb)
            if bs and bs[0][0] == "call" and call_name_matches(bs[0][1], r"TermJsonLdUtil>?::is_bnode$|Term>?::is_blank_node$") \
                    and c.dominates(gb, bi) and bi in c.reachable(bs[1], avoid={bs[2]}):
                for p in provenance(c, bs[0][1]["args"][0]):
                    if p[0] == "call":
                        m = re.search(r"Quad>?::(s|g)$", p[1]["f"].get("name") or "")
                        if m:
                            classes.add(m.group(1))
    missing = {"g": "a blank node that names a graph", "s": "a blank node that is a subject in several graphs"}
    for k, what in sorted(missing.items()):
        if k in classes:
            ck.ok("R12.9", "process_quads poisons unique_parent for %s" % what)
        else:
            ck.bad("R12.9", "R12.9@process_quads#label-not-kept:%s" % k, "process_quads never marks %s as having no unique parent: if it is also a "
                   "list node it is folded into an anonymous @list, and the blank node comes back as two unrelated ones" % what, c.loc)


def typed_list_rule(ck, facts):
    """R12.10: `@list` cannot carry an explicit `rdf:type rdf:List`; a list node with that type may only be folded if the type
    triple is re-emitted.  is_list_node accepting a third entry `@type: [rdf:List]` (as the W3C algorithm does) drops the quad."""
    fns = facts.find_fns(crate="sophia_jsonld", name_re=r"^serializer::engine::is_list_node$")
    if len(fns) != 1:
        ck.bad("R12.10", "R12.10@is_list_node#anchor", "anchor-missing (%d)" % len(fns))
        return
    fn = fns[0]
    consts = set()
    for f in facts.with_closures(fn):
        for b in f.blocks:
            for st in b["s"]:
                for m in re.finditer(r"rdf-syntax-ns#List", str(st)):
                    consts.add("rdf:List")
            if b["t"]["t"] == "call" and "rdf-syntax-ns#List" in str(b["t"]["args"]):
                consts.add("rdf:List")
    if consts:
        ck.bad("R12.10", "R12.10@is_list_node#typed-list-node-folded", "is_list_node accepts a node with a third entry `@type: [rdf:List]` and the "
               "node is folded into @list, which cannot convey the type: `_:l rdf:type rdf:List` is dropped (4 quads in, 3 out), "
               "although the same dataset round-trips with use_rdf_type", fn.loc)
    else:
        ck.ok("R12.10", "is_list_node does not accept typed list nodes")


def crossed_fields(facts, fn, adt_suffix):
    """struct-rebuilding builders: a field initialised from `self.<another field>` of the same struct.  Returns
    [(field, source field)]."""
    adt = [v for k, v in facts.adts.items() if k.endswith(adt_suffix)]
    if len(adt) != 1:
        return None
    names = [f["name"] for f in adt[0]["variants"][0]["fields"]]
    out = []
    for b in fn.blocks:
        for st in b["s"]:
            if st[0] == "=" and st[2][0] == "agg" and str(st[2][1].get("def", "")).endswith(adt_suffix) and len(st[2][2]) == len(names):
                for fname, op in zip(names, st[2][2]):
                    o = fn.origin(op)
                    if o[0] == "param" and o[1] == 1:
                        src = [p_.split(":")[1] for p_ in o[2] if ":" in p_ and p_.split(":")[1]]
                        if src and src[0] in names and src[0] != fname:
                            out.append((fname, src[0]))
    return out


def builders_rule(ck, facts):
    """R12.11: the builders of JsonLdOptions that rebuild the whole struct (to change the loader type) copy every other option
    from the field of the same name."""
    import core
    cf = crossed_fields(core.fixture_facts(), core.fixture_fn("Opts::<L>::pos_with_loader_crossed"), "::Opts")
    ck.control("R12.11", "Opts::pos_with_loader_crossed", bool(cf))
    cf = crossed_fields(core.fixture_facts(), core.fixture_fn("Opts::<L>::neg_with_loader"), "::Opts")
    ck.control("R12.11", "Opts::neg_with_loader", bool(cf), expect=False)
    n = 0
    for f in sorted(facts.fns.values(), key=lambda x: x.id):
        if f.crate != "sophia_jsonld" or "options::JsonLdOptions" not in f.name or f.kind == "Closure":
            continue
        cr = crossed_fields(facts, f, "options::JsonLdOptions")
        if cr is None:
            ck.bad("R12.11", "R12.11@JsonLdOptions#anchor", "anchor-missing: struct JsonLdOptions")
            return
        if not any(st[0] == "=" and st[2][0] == "agg" and str(st[2][1].get("def", "")).endswith("options::JsonLdOptions") for b in f.blocks for st in b["s"]):
            continue
        n += 1
        short = f.name.split("::")[-1]
        if cr:
            ck.bad("R12.11", "R12.11@JsonLdOptions::%s#crossed-field:%s<-%s" % (short, cr[0][0], cr[0][1]), "%s rebuilds the options with `%s: self.%s`: "
                   "the option is silently replaced by another one (with_use_rdf_type(true) followed by a loader builder runs with "
                   "use_rdf_type = use_native_types)" % (short, cr[0][0], cr[0][1]), f.loc)
        else:
            ck.ok("R12.11", "JsonLdOptions::%s copies every option from the field of the same name" % short)
    ck.floor("R12.11", "struct-rebuilding builders of JsonLdOptions", n, 4)


def compound_literal_rule(ck, facts):
    """R12.12: a compound-literal candidate is left out of the node objects only if something renders it: the closure that keeps
    the candidates (`compound_literals.retain(..)`) must consult unique_parent, not only the node's own shape."""
    fns = facts.find_fns(crate="sophia_jsonld", name_re=r"Engine::<'a, L>::into_json$")
    if len(fns) != 1:
        ck.bad("R12.12", "R12.12@into_json#anchor", "anchor-missing (%d)" % len(fns))
        return
    fn = fns[0]
    ret = [t for _, t in fn.calls() if call_name_matches(t, r"HashSet::<T, S, A>::retain$|HashSet::<T, S>::retain$")]
    if len(ret) != 1:
        ck.bad("R12.12", "R12.12@into_json#anchor", "anchor-missing: compound_literals.retain(..) (%d)" % len(ret), fn.loc)
        return
    o = fn.origin(ret[0]["args"][1])
    cf = facts.fns.get(o[1]["def"]) if o[0] == "agg" and o[1].get("k") == "closure" else None
    if cf is None:
        ck.bad("R12.12", "R12.12@into_json#anchor", "anchor-missing: the retain closure", fn.loc)
        return
    units = facts.with_closures(cf)
    shape = any(call_name_matches(t, r"engine::is_compound_literal$") for u in units for _, t in u.calls())
    parent = any(":unique_parent" in str(st) for u in units for b in u.blocks for st in b["s"])
    # with disjoint closure captures the field is borrowed where the closure is built
    for b in fn.blocks:
        for st in b["s"]:
            if st[0] == "=" and st[2][0] == "agg" and st[2][1].get("def") == cf.id:
                for op in st[2][2]:
                    if op[0] != "k":
                        sd = fn.single_def(op[1][0])
                        if ":unique_parent" in str(op) or (sd is not None and ":unique_parent" in str(sd[2])):
                            parent = True
    if shape and parent:
        ck.ok("R12.12", "compound literals are folded only if is_compound_literal() and a unique parent is recorded")
    else:
        ck.bad("R12.12", "R12.12@into_json#compound-literal-without-reference-check", "a blank node with rdf:value + rdf:direction is left out of "
               "the node objects on its shape alone (is_compound_literal=%s, unique_parent consulted=%s): if nothing, or a node of "
               "another graph, or several nodes refer to it, its quads are lost" % (shape, parent), cf.loc)


def anchored_lists_rule(ck, facts):
    """R12.13: a marked list node is left out of the node objects because the node object of its parent renders the list; in mode 1.1 the
    parent may itself be a list node (a list inside a list), so marks can form a cycle (`_:l rdf:first _:l`) that nothing renders.
    After the marking loop and before anything is rendered, into_json must therefore filter `list_node` (retain / remove)."""
    fns = facts.find_fns(crate="sophia_jsonld", name_re=r"Engine::<'a, L>::into_json$")
    if len(fns) != 1:
        ck.bad("R12.13", "R12.13@into_json#anchor", "anchor-missing (%d)" % len(fns))
        return
    fn = fns[0]
    marks = [bi for bi, t in fn.calls() if call_name_matches(t, r"Engine::<'a, L>::mark_list_node$")]
    for u in facts.with_closures(fn)[1:]:
        if any(call_name_matches(t, r"Engine::<'a, L>::mark_list_node$") for _, t in u.calls()):
            # marked from a closure (`list_seeds.into_iter().for_each(|i| self.mark_list_node(i))`): the call that receives the closure
            for bi, t in fn.calls():
                for a_ in t["args"]:
                    o_ = fn.origin(a_) if a_[0] != "k" else ("const",)
                    if o_[0] == "agg" and o_[1].get("def") == u.id:
                        marks.append(bi)
    renders = [bi for bi, t in fn.calls() if call_name_matches(t, r"Engine::<'a, L>::(jsonify|make_node_object)$")]
    for u in facts.with_closures(fn)[1:]:
        if any(call_name_matches(t, r"Engine::<'a, L>::(jsonify|make_node_object)$") for _, t in u.calls()):
            # rendered from a closure: the block that builds the closure stands for it
            renders += [bi for bi, b in enumerate(fn.blocks) for st in b["s"] if st[0] == "=" and st[2][0] == "agg" and st[2][1].get("def") == u.id]
    if not marks or not renders:
        ck.bad("R12.13", "R12.13@into_json#anchor", "anchor-missing: marking loop (%d) / rendering calls (%d)" % (len(marks), len(renders)), fn.loc)
        return
    filt = []
    for bi, t in fn.calls():
        if call_name_matches(t, r"HashMap::<K, V, S, A>::(retain|remove|clear)$|HashMap::<K, V, S>::(retain|remove|clear)$") and t["args"] \
                and ":list_node" in str(fn.origin(t["args"][0])) + str(t["args"][0]):
            filt.append(bi)
    for b_i, b in enumerate(fn.blocks):
        for st in b["s"]:
            if st[0] == "=" and st[2][0] == "ref" and ":list_node" in str(st[2][2]) and "mut" in str(st[2][1]).lower():
                # &mut self.list_node handed to retain through a temporary
                for bi, t in fn.calls():
                    if call_name_matches(t, r"::(retain|remove|clear)$") and t["args"] and t["args"][0][0] != "k" and t["args"][0][1][0] == st[1][0]:
                        filt.append(bi)
    good = [f for f in set(filt) if any(f in fn.reachable(fn.blocks[m]["t"]["to"]) for m in marks if fn.blocks[m]["t"].get("to") is not None)
            and all(fn.dominates(f, r) for r in renders)]
    if good:
        ck.ok("R12.13", "into_json filters list_node after the marking loop and before anything is rendered (list nodes that no node object "
                        "would render are unmarked)")
    else:
        ck.bad("R12.13", "R12.13@into_json#unanchored-lists", "into_json renders with the marks of mark_list_node as they are: in mode 1.1 a list that "
               "contains itself (`_:l rdf:first _:l ; rdf:rest rdf:nil`, or two lists containing each other) has every node marked, every "
               "node left out of the node objects and no @list anywhere: 2 quads in, `[]` out, no error", fn.loc)


def run(ck, facts, tier):
    facts.require_crates(["sophia_jsonld"])
    anchored_lists_rule(ck, facts)
    singleton_rule(ck, facts)
    native_types_rule(ck, facts)
    list_suppression_rule(ck, facts)
    filter_rule(ck, facts)
    unique_parent_rule(ck, facts)
    label_keeping_rule(ck, facts)
    typed_list_rule(ck, facts)
    builders_rule(ck, facts)
    compound_literal_rule(ck, facts)
    fns = [f for f in facts.fns.values() if f.crate == "sophia_jsonld" and re.search(r"jsonld/src/(serializer|util_traits)", f.file)]
    ck.floor("R12.2", "serializer functions", len(fns), 60)
    sites = []
    for f in sorted(fns, key=lambda x: x.id):
        sites += panics.sites_of(f)
    panics.controls(ck, "R12.2")
    panics.classify(facts, sites, TABLE)
    for s in sites:
        if s.kind == "validator-call":
            continue
        if s.status in ("auto", "audited"):
            ck.ok("R12.2", s.key, s.reason)
        else:
            ck.bad("R12.2", "R12.2@" + s.key, "panic site in the JSON-LD serializer is neither guarded nor audited: %s %s (%s)" % (s.kind, s.what, s.detail), s.loc)
    ck.floor("R12.2", "panic sites classified", len(sites), 30)
    ck.extra["panic_audit"] = dict(functions=len(fns), sites=len(sites))
    ck.assumptions = ["json-ld / json-syntax crates are a trusted base", "list and named-graph layout heuristics are not decided"]
    ck.trusted = ["rustc MIR", "audited table in rules/c12.py (one invariant per entry)"]
