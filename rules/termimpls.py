"""Facts about `impl Term for X` shared by C02 and C08."""
import re
from mirutil import call_name_matches

TERM = "sophia_api::term::Term"
REQUIRED = {
    "Iri": ["iri"],
    "BlankNode": ["bnode_id"],
    "Literal": ["lexical_form", "datatype", "language_tag"],
    "Variable": ["variable"],
    "Triple": ["triple", "to_triple"],
}
ALL_KINDS = set(REQUIRED)


def term_impls(facts):
    return [i for i in facts.impls if i.get("trait") == TERM]


def kinds_returned(facts, kind_fn):
    """set of TermKind variants `kind()` may return; ALL_KINDS if it delegates or computes"""
    ks = set()
    unknown = False
    for f in facts.with_closures(kind_fn):
        for b in f.blocks:
            if b.get("cleanup"):
                continue
            for s in b["s"]:
                if s[0] == "=" and s[2][0] == "agg" and s[2][1].get("def", "").endswith("term::TermKind"):
                    ks.add(s[2][1]["vname"])
                if s[0] == "=" and s[2][0] == "use" and s[2][1][0] == "k" and "TermKind" in s[2][1][1].get("ty", ""):
                    dbg = s[2][1][1].get("dbg", "")
                    m = re.search(r"TermKind::(\w+)", dbg)
                    if m:
                        ks.add(m.group(1))
                    else:
                        unknown = True
            t = b["t"]
            if t["t"] == "call" and call_name_matches(t, r"Term>?::kind$"):
                unknown = True
            elif t["t"] == "call" and "TermKind" in (f.locals[t["dest"][0]]["ty"] if t["dest"] else ""):
                unknown = True
    if unknown or not ks:
        return set(ALL_KINDS)
    return ks


# Kinds a type's kind() can nominally return (it delegates to the wrapped term) but which never reach the type, because the
# only function constructing it refuses those kinds first.  Each entry is re-verified on every run (kind_exclusion_holds).
KIND_EXCLUSIONS = {
    "_c14n_term::C14nTerm<T>": {
        "kinds": {"Triple", "Variable"},
        "crate": "sophia_c14n", "guard_fn": r"^rdfc10::relabel_with$", "guards": (r"Term>?::is_triple$", r"Term>?::is_variable$"),
        "refusal": ("C14nError", "Unsupported"), "ctor": ("C14nTerm", "Other"),
        "why": "relabel_with answers Err(Unsupported) for any quad with a quoted triple or a variable before it builds C14nTerm::Other",
    },
}


def kind_exclusion_holds(facts, excl):
    """(held, note): the guard function still refuses the excluded kinds, and nobody else builds the wrapper."""
    from mirutil import bool_switch, blocks_with_agg
    roots = [f for f in facts.fns.values() if f.crate == excl["crate"] and f.kind != "closure" and re.search(excl["guard_fn"], f.name)]
    if len(roots) != 1:
        return False, "guard function not found (%d)" % len(roots)
    g = roots[0]
    refusal = set()
    for bi, b in enumerate(g.blocks):
        if b.get("cleanup"):
            continue
        for st in b["s"]:
            if st[0] == "=" and st[2][0] == "agg" and st[2][1].get("def", "").endswith(excl["refusal"][0]) and st[2][1].get("vname") == excl["refusal"][1]:
                refusal.add(bi)
    # ... or calls a local helper (closure of g, or a function of the crate) that builds it
    builders = set()
    for f in facts.fns.values():
        if f.crate != excl["crate"] or f is g:
            continue
        if any(st[0] == "=" and st[2][0] == "agg" and st[2][1].get("def", "").endswith(excl["refusal"][0]) and st[2][1].get("vname") == excl["refusal"][1]
               for b in f.blocks if not b.get("cleanup") for st in b["s"]) and len(f.blocks) <= 12:
            builders.add(f.id)
    for bi, t in g.calls():
        if (t["f"].get("res") or t["f"].get("def")) in builders:
            refusal.add(bi)
    if not refusal:
        return False, "%s no longer builds %s::%s" % (g.name, excl["refusal"][0], excl["refusal"][1])
    for pat in excl["guards"]:
        calls = [(bi, t) for bi, t in g.calls() if call_name_matches(t, pat)]
        if not calls:
            return False, "%s no longer calls %s" % (g.name, pat)
        for bi, t in calls:
            sw = t.get("to")
            bs = bool_switch(g, sw) if sw is not None else None
            if not bs or bs[0][0] != "call" or bs[0][1] is not t:
                return False, "the result of %s is not tested directly" % pat
            reach = g.reachable(bs[1], avoid=refusal)
            if any(r in reach for r in g.ret_blocks()):
                return False, "%s can return without %s when %s is true" % (g.name, excl["refusal"][1], pat)
    for f in facts.fns.values():
        if f.crate != excl["crate"]:
            continue
        if re.search(r" as std::clone::Clone>::clone$", f.name):
            continue          # a copy of an existing value
        for b in f.blocks:
            for st in b["s"]:
                if st[0] == "=" and st[2][0] == "agg" and st[2][1].get("def", "").endswith(excl["ctor"][0]) and st[2][1].get("vname") == excl["ctor"][1]:
                    root = facts.fns.get(f.root) if f.root else f
                    if root is not g and f is not g:
                        return False, "%s::%s is also built in %s" % (excl["ctor"][0], excl["ctor"][1], f.name)
    return True, excl["why"]


def never_returns(fn):
    return not any(r in fn.reachable(0) for r in fn.ret_blocks())


def accessor_controls(ck, rule):
    import core
    ck.control(rule, "pos_always_panics (body is unimplemented!())", never_returns(core.fixture_fn("pos_always_panics")))
    ck.control(rule, "neg_panics_for_one_kind", never_returns(core.fixture_fn("neg_panics_for_one_kind")), expect=False)


def accessor_kind_rule(ck, facts, rule, crates=None):
    """R8.5: every impl Term overrides the accessors of every kind its kind() can return (the trait's default accessors
    are `unimplemented!()` for that kind), and no accessor it does override is an unconditional panic."""
    n = 0
    accessor_controls(ck, rule)
    for i in term_impls(facts):
        if crates and i["crate"] not in crates:
            continue
        n += 1
        items = {x["name"]: x["def"] for x in i["items"] if x["kind"] == "AssocFn"}
        kf = facts.fns.get(items.get("kind"))
        if kf is None:
            ck.bad(rule, "%s@%s#kind-missing" % (rule, i["self_ty"]), "impl Term for %s has no kind() body" % i["self_ty"],
                   "%s:%s" % (i["file"], i["line"]))
            continue
        ks = kinds_returned(facts, kf)
        excl = KIND_EXCLUSIONS.get(i["self_ty"])
        note = ""
        if excl:
            held, why = kind_exclusion_holds(facts, excl)
            if held:
                ks = ks - excl["kinds"]
                note = "; kinds %s excluded: %s" % (sorted(excl["kinds"]), why)
            else:
                ck.bad(rule, "%s@%s#exclusion-lost" % (rule, i["self_ty"]), "the audited reason why %s never holds a %s no longer "
                       "holds: %s" % (i["self_ty"], "/".join(sorted(excl["kinds"])), why), "%s:%s" % (i["file"], i["line"]))
        missing = [(k, a) for k in sorted(ks) for a in REQUIRED[k] if a not in items]
        diverging = []
        for name, d in sorted(items.items()):
            f = facts.fns.get(d)
            if f is not None and never_returns(f):
                diverging.append(name)
        for name in diverging:
            ck.bad(rule, "%s@%s::%s#always-panics" % (rule, i["self_ty"], name), "impl Term for %s: %s() never returns (its body is an "
                   "unconditional panic): generic code asking any term of this type for %s() - atoms(), constituents(), the "
                   "isomorphism test, assert_consistent_term_impl - aborts" % (i["self_ty"], name, name), facts.fns[items[name]].loc)
        if missing:
            ck.bad(rule, "%s@%s#accessor-missing:%s" % (rule, i["self_ty"], ",".join(a for _, a in missing)),
                   "impl Term for %s can be of kind %s but does not override %s: the default accessor panics "
                   "(unimplemented!) for that kind" % (i["self_ty"], sorted({k for k, _ in missing}), [a for _, a in missing]),
                   "%s:%s" % (i["file"], i["line"]))
        elif not diverging:
            ck.ok(rule, "impl Term for %s: kinds %s, accessors overridden, none diverges%s" % (i["self_ty"], sorted(ks), note))
    return n


# --------------------------------------------------------------------------- kind predicates, decided per variant

KIND_ENUM = "sophia_api::term::TermKind"


def kind_predicate(facts, fn, depth=3):
    """Decide a *kind predicate* (a bool-valued function of a term that looks only at `kind()`), for every TermKind
    variant V: the boolean it returns when every `kind()` call on its receiver yields V.  Written forms accepted:
    `matches!(self.kind(), A | B)` (switch on the discriminant), `self.kind() == A`, `!=`, `||`/`&&` combinations,
    and calls to other kind predicates on the same receiver (`self.is_iri() || self.is_blank_node()`), which are
    decided recursively.  Returns {variant: bool}, or None when the result depends on anything else.
    This is evaluation of a finite abstraction (five cases) over the MIR, not execution."""
    adt = facts.adts.get(KIND_ENUM)
    if adt is None:
        return None
    discr = {v["name"]: int(v["discr"]) for v in adt["variants"]}
    out = {}
    for V in discr:
        r = _eval_kind_pred(facts, fn, V, discr, depth)
        if r is None:
            return None
        out[V] = r
    return out


def _eval_kind_pred(facts, fn, V, discr, depth):
    env = {}

    def deref(v):
        while isinstance(v, tuple) and v[0] == "ref":
            v = v[1]
        return v

    def val(op):
        if op[0] == "k":
            c = op[1]
            if c.get("kind") == "int":
                return int(c["v"])
            if c.get("kind") == "enumref" and c.get("enum") == KIND_ENUM:
                return ("ref", ("enum", c["variant"]))
            m = re.search(r"TermKind::(\w+)$", c.get("dbg", "")) if "TermKind" in c.get("ty", "") else None
            if m and not c.get("ty", "").startswith("&"):
                return ("enum", m.group(1))
            return None
        p = op[1]
        v = env.get(p[0], ("param", p[0]) if 1 <= p[0] <= fn.argc else None)
        for proj in p[1:]:
            if proj == "*":
                v = v[1] if isinstance(v, tuple) and v[0] == "ref" else v
            else:
                return None
        return v
    bi, steps = 0, 0
    while steps < 400:
        steps += 1
        b = fn.blocks[bi]
        for s in b["s"]:
            if s[0] != "=" or len(s[1]) != 1:
                continue
            d, rv = s[1][0], s[2]
            if rv[0] == "use":
                env[d] = val(rv[1])
            elif rv[0] == "ref":
                inner = val(["c", rv[2]])
                env[d] = ("ref", inner) if inner is not None else None
            elif rv[0] == "discr":
                v = deref(val(["c", rv[1]]))
                env[d] = discr.get(v[1]) if isinstance(v, tuple) and v[0] == "enum" else None
            elif rv[0] == "agg" and rv[1].get("def", "").endswith("term::TermKind"):
                env[d] = ("enum", rv[1]["vname"])
            elif rv[0] == "bin":
                a, c = deref(val(rv[2])), deref(val(rv[3]))
                if isinstance(a, tuple) and isinstance(c, tuple) and a[0] == c[0] == "enum" and rv[1] in ("Eq", "Ne"):
                    env[d] = int((a[1] == c[1]) == (rv[1] == "Eq"))
                elif isinstance(a, int) and isinstance(c, int):
                    r = {"Eq": a == c, "Ne": a != c, "Lt": a < c, "Le": a <= c, "Gt": a > c, "Ge": a >= c,
                         "BitAnd": a & c, "BitOr": a | c, "BitXor": a ^ c}.get(rv[1])
                    env[d] = None if r is None else int(r)
                else:
                    env[d] = None
            elif rv[0] == "un" and rv[1] == "Not":
                a = val(rv[2])
                env[d] = 1 - a if a in (0, 1) else None
            elif rv[0] == "cast":
                env[d] = val(rv[2]) if isinstance(val(rv[2]), int) else None
            else:
                env[d] = None
        t = b["t"]
        k = t["t"]
        if k == "goto":
            bi = t["to"]
        elif k == "switch":
            v = val(t["on"])
            if not isinstance(v, int):
                return None
            nxt = t["else"]
            for sv, tb in t["vals"]:
                if int(sv) == v:
                    nxt = tb
            bi = nxt
        elif k == "ret":
            r = env.get(0)
            return bool(r) if r in (0, 1) else None
        elif k == "call":
            if t["to"] is None or len(t["dest"]) != 1:
                return None
            name = t["f"].get("name") or ""
            args = [deref(val(a)) for a in t["args"]]
            res = None
            recv_is_subject = bool(args) and isinstance(args[0], tuple) and args[0][0] == "param"
            if re.search(r"Term>?::kind$", name) and recv_is_subject:
                res = ("enum", V)
            elif call_name_matches(t, r"cmp::PartialEq(<.*>)?>?::(eq|ne)$") and len(args) == 2 \
                    and all(isinstance(a, tuple) and a[0] == "enum" for a in args):
                res = int((args[0][1] == args[1][1]) == name.endswith("::eq"))
            elif recv_is_subject and len(args) == 1 and fn.locals[t["dest"][0]]["ty"] == "bool" and depth > 0:
                callee = facts.fns.get(t["f"].get("res") or "") or facts.fns.get(t["f"].get("def") or "")
                if callee is not None and callee is not fn:
                    r = _eval_kind_pred(facts, callee, V, discr, depth - 1)
                    res = None if r is None else int(r)
            elif call_name_matches(t, r"Deref>?::deref$|Borrow<.*>>?::borrow$|AsRef<.*>>?::as_ref$|clone::Clone>?::clone$") and args:
                res = args[0]
            if res is None:
                return None
            env[t["dest"][0]] = res
            bi = t["to"]
        elif k in ("drop", "assert"):
            bi = t["to"]
        else:
            return None
    return None
