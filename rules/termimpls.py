"""Facts about `impl Term for X` shared by C02 and C08."""
import re
from mirutil import call_name_matches

TERM = "sophia_api::term::Term"
REQUIRED = {
    "Iri": ["iri"],
    "BlankNode": ["bnode_id"],
    "Literal": ["lexical_form", "datatype", "language_tag"],
    "Variable": ["variable"],
    "Triple": ["triple", "to_triple"],
}
ALL_KINDS = set(REQUIRED)


def term_impls(facts):
    return [i for i in facts.impls if i.get("trait") == TERM]


def kinds_returned(facts, kind_fn):
    """set of TermKind variants `kind()` may return; ALL_KINDS if it delegates or computes"""
    ks = set()
    unknown = False
    for f in facts.with_closures(kind_fn):
        for b in f.blocks:
            if b.get("cleanup"):
                continue
            for s in b["s"]:
                if s[0] == "=" and s[2][0] == "agg" and s[2][1].get("def", "").endswith("term::TermKind"):
                    ks.add(s[2][1]["vname"])
                if s[0] == "=" and s[2][0] == "use" and s[2][1][0] == "k" and "TermKind" in s[2][1][1].get("ty", ""):
                    dbg = s[2][1][1].get("dbg", "")
                    m = re.search(r"TermKind::(\w+)", dbg)
                    if m:
                        ks.add(m.group(1))
                    else:
                        unknown = True
            t = b["t"]
            if t["t"] == "call" and call_name_matches(t, r"Term>?::kind$"):
                unknown = True
            elif t["t"] == "call" and "TermKind" in (f.locals[t["dest"][0]]["ty"] if t["dest"] else ""):
                unknown = True
    if unknown or not ks:
        return set(ALL_KINDS)
    return ks


def accessor_kind_rule(ck, facts, rule, crates=None):
    """R8.5: every impl Term overrides the accessors of every kind its kind() can return (the trait's default accessors
    are `unimplemented!()` for that kind)."""
    n = 0
    for i in term_impls(facts):
        if crates and i["crate"] not in crates:
            continue
        n += 1
        items = {x["name"]: x["def"] for x in i["items"] if x["kind"] == "AssocFn"}
        kf = facts.fns.get(items.get("kind"))
        if kf is None:
            ck.bad(rule, "%s@%s#kind-missing" % (rule, i["self_ty"]), "impl Term for %s has no kind() body" % i["self_ty"],
                   "%s:%s" % (i["file"], i["line"]))
            continue
        ks = kinds_returned(facts, kf)
        missing = [(k, a) for k in sorted(ks) for a in REQUIRED[k] if a not in items]
        if missing:
            ck.bad(rule, "%s@%s#accessor-missing:%s" % (rule, i["self_ty"], ",".join(a for _, a in missing)),
                   "impl Term for %s can be of kind %s but does not override %s: the default accessor panics "
                   "(unimplemented!) for that kind" % (i["self_ty"], sorted({k for k, _ in missing}), [a for _, a in missing]),
                   "%s:%s" % (i["file"], i["line"]))
        else:
            ck.ok(rule, "impl Term for %s: kinds %s, accessors overridden" % (i["self_ty"], sorted(ks)))
    return n
