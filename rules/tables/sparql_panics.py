"""Audited panic sites of the SPARQL evaluator core (R13.4): key -> (max occurrences, reason)."""
TABLE = {
    "binding::populate_bindings_term#panic-call:unreachable:-":
        (1, "inside the `SimpleTerm::Triple` arm of `pattern.as_simple()`: AnyPattern::as_simple yields a Triple only for "
            "AnyPattern::Term(TermPattern::Triple(_)), which is the pattern the let-else destructures"),
    "binding::populate_bindings_term#panic-call:debug_assert:sophia_api::prelude::Term::is_triple":
        (1, "the term was selected by the matcher SparqlMatcher::build made from this quoted-triple pattern, which only matches "
            "quoted triples"),
    "binding::populate_bindings_term#unwrap:unwrap:call:sophia_api::prelude::Term::triple":
        (1, "same invariant as the debug assertion just before it"),
    "binding::populate_bindings_term#panic-call:debug_assert:sophia_api::prelude::Term::eq":
        (1, "constant pattern: the term was selected by a constant matcher built from the same pattern"),
}
