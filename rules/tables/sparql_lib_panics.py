"""Audited panic sites of the SPARQL function library, numeric tower and value comparison (R13.17):
key -> (max occurrences, reason).  Every entry was read against the code; the hunt round showed that *un*-audited sites
here were real defects (SUBSTR byte slicing, unary minus of isize::MIN, the `unreachable!()` of naive_to_fixed)."""
TABLE = {
    "function::call_function#panic-call:unreachable:-":
        (31, "`let [a, ..] = &arguments[..] else { unreachable!() }`: the number of arguments of a built-in call is fixed by the SPARQL "
             "grammar production that spargebra's parser used to build the FunctionCall (assumption A13: queries reach the evaluator "
             "only through spargebra's parser)"),
    "function::concat#index:slice:RangeFrom": (1, "`args[1..]` on the right of `args.len() < 2 ||`"),
    "function::lang_matches#index:str:RangeTo":
        (1, "`tag[..range.len()]` on the right of `range.len() <= tag.len() &&`; both are validated LanguageTags, i.e. ASCII (LANG_TAG "
            "pattern), so every offset is a character boundary"),
    "function::lang_matches#index:str:RangeFrom": (1, "`tag[range.len()..]`, same guard and ASCII argument"),
    "function::strbefore#index:str:RangeTo": (1, "`[..found.unwrap_or(0)]`: the start of a match of str::find, or 0: character boundaries"),
    "function::strafter#index:str:RangeFrom": (1, "`[pos + delim.len()..]`: the end of a match of str::find: a character boundary <= len"),
    "function::strafter#assert:overflow:Add:-": (1, "pos + delim.len() <= txt.len()"),
    "function::seconds#assert:overflow:Mul:-": (1, "second() <= 60 times 10^9 in u64"),
    "function::seconds#assert:overflow:Add:-": (1, "< 61 * 10^9 + 2 * 10^9 in u64"),
    "function::str_len#panic-call:todo:-": (1, "a str is at most isize::MAX bytes long, hence at most isize::MAX characters: the else branch is dead"),
    "<function::encode_for_uri_utils::EncodeIter as std::iter::Iterator>::next#assert:overflow:Add:-":
        (1, "state starts at 0 or 2 and the iterator is dropped by flat_map at its first None (state <= 6)"),
    "<function::encode_for_uri_utils::EncodeIter as std::iter::Iterator>::next#assert:div_zero:-": (1, "constant divisor 16"),
    "<function::encode_for_uri_utils::EncodeIter as std::iter::Iterator>::next#assert:rem_zero:-": (1, "constant divisor 16"),
    "function::encode_for_uri_utils::hex_digit#panic-call:debug_assert:rvalue": (1, "called with value / 16 and value % 16 of a u8"),
    "function::encode_for_uri_utils::hex_digit#assert:overflow:Add:-": (2, "b'0' + (0..10), b'A' + (10..16) in u8"),
    "function::encode_for_uri_utils::hex_digit#assert:overflow:Sub:-": (1, "(b'A' + val) - 10 with val >= 10"),
    "<value::_xsd_date_time::XsdDateTime as std::fmt::Display>::fmt#assert:overflow:Sub:-":
        (1, "`out.len() - 6`: to_rfc3339 of a UTC instant ends with the six characters `+00:00`"),
    "value::_number::SparqlNumber::coerce_to_decimal#panic-call:panic:-":
        (1, "documented precondition (NativeInt or BigInt only); its callers are the integer/decimal arms of coercing_operator, whose "
            "pairing of operand variants R14.6 decides"),
    "value::_number::SparqlNumber::coerce_to_decimal#unwrap:unwrap:call:bigdecimal::FromPrimitive::from_isize":
        (1, "BigDecimal::from_isize is total"),
}
