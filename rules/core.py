"""E3 core: fact loading, CFG helpers, evidence/report/known-findings plumbing, E2 bridge."""
import fcntl
import glob
import hashlib
import json
import os
import re
import shutil
import subprocess
import sys
import time

VERIF = os.path.dirname(os.path.dirname(os.path.abspath(__file__)))
REPO = os.environ.get("VERIF_REPO", "/repo")
CACHE = os.path.join(VERIF, ".cache")
DRIVER = os.path.join(VERIF, "driver", "target", "release", "sophia-facts-driver")
RELANG = os.path.join(VERIF, "relang", "target", "release", "relang")

WORKSPACE_CRATES = [
    "sophia_api", "sophia_c14n", "sophia_inmem", "sophia_iri", "sophia_isomorphism", "sophia_jsonld",
    "sophia_resource", "sophia_rio", "sophia", "sophia_sparql", "sophia_sparql_client", "sophia_term",
    "sophia_turtle", "sophia_xml",
]


class CheckError(Exception):
    """The checker itself could not do its job (fail closed)."""


# --------------------------------------------------------------------------- facts acquisition

FIXTURES = os.path.join(VERIF, "driver", "fixtures")
_fixture_facts = None


def fixture_facts():
    """Facts of the control crate /verif/driver/fixtures (positive / negative controls of the detectors), extracted by
    the same driver; cached by the content hash of the fixture sources and of the driver binary."""
    global _fixture_facts
    if _fixture_facts is not None:
        return _fixture_facts
    ensure_tools()
    os.makedirs(CACHE, exist_ok=True)
    h = hashlib.sha256()
    for rel in ("Cargo.toml", os.path.join("src", "lib.rs")):
        with open(os.path.join(FIXTURES, rel), "rb") as fh:
            h.update(fh.read())
    with open(DRIVER, "rb") as fh:
        h.update(hashlib.sha256(fh.read()).digest())
    d = os.path.join(CACHE, "fixture-" + h.hexdigest()[:24])
    lock = open(os.path.join(CACHE, "lock-fixture"), "w")
    fcntl.flock(lock, fcntl.LOCK_EX)
    try:
        if not os.path.exists(os.path.join(d, "COMPLETE")):
            for old in glob.glob(os.path.join(CACHE, "fixture-*")):
                shutil.rmtree(old, ignore_errors=True)
            import tempfile
            scratch = tempfile.mkdtemp(prefix="verif-fix.", dir="/var/tmp")
            try:
                src = os.path.join(scratch, "vfix")
                shutil.copytree(FIXTURES, src, ignore=shutil.ignore_patterns("target", "Cargo.lock"))
                tmp = d + ".tmp%d" % os.getpid()
                os.makedirs(tmp)
                r = subprocess.run([os.path.join(VERIF, "driver", "run.sh"), tmp], env=dict(os.environ, VERIF_REPO=src),
                                   stdout=subprocess.PIPE, stderr=subprocess.STDOUT, text=True)
                if r.returncode != 0 or not glob.glob(os.path.join(tmp, "*.json")):
                    shutil.rmtree(tmp, ignore_errors=True)
                    raise CheckError("fact extraction failed on the control crate:\n" + r.stdout[-3000:])
                open(os.path.join(tmp, "COMPLETE"), "w").write("ok\n")
                os.rename(tmp, d)
            finally:
                shutil.rmtree(scratch, ignore_errors=True)
    finally:
        fcntl.flock(lock, fcntl.LOCK_UN)
        lock.close()
    _fixture_facts = Facts(d)
    if "vfix" not in _fixture_facts.crates:
        raise CheckError("control crate facts missing (fail closed)")
    return _fixture_facts


def tree_hash():
    h = hashlib.sha256()
    for root, dirs, files in os.walk(REPO):
        dirs[:] = sorted(d for d in dirs if d not in ("target", ".git"))
        for f in sorted(files):
            p = os.path.join(root, f)
            if os.path.islink(p):
                continue
            h.update(os.path.relpath(p, REPO).encode() + b"\0")
            try:
                with open(p, "rb") as fh:
                    h.update(hashlib.sha256(fh.read()).digest())
            except OSError:
                pass
    # the driver binary is part of the key
    try:
        with open(DRIVER, "rb") as fh:
            h.update(hashlib.sha256(fh.read()).digest())
    except OSError:
        pass
    return h.hexdigest()[:24]


def ensure_tools():
    """Build the driver and the language engine if missing (normally done by setup_cmd)."""
    if not os.path.exists(DRIVER):
        subprocess.run(["cargo", "build", "--release", "--offline"], cwd=os.path.join(VERIF, "driver"),
                       check=True, stdout=subprocess.DEVNULL, stderr=subprocess.DEVNULL)
    if not os.path.exists(RELANG):
        subprocess.run(["cargo", "build", "--release", "--offline"], cwd=os.path.join(VERIF, "relang"),
                       check=True, stdout=subprocess.DEVNULL, stderr=subprocess.DEVNULL)


def facts_dir(mode="lib"):
    """Return a directory with the fact files of /repo's *current* working tree for `mode`.

    mode "lib": `cargo check --workspace` (library targets, default features).
    mode "all": `cargo check --workspace --all-targets --all-features`.
    Facts are cached under a key that is the content hash of every file of the tree (and of the driver),
    so a cached set is exactly what a fresh run would produce; any edit under /repo changes the key.
    """
    ensure_tools()
    os.makedirs(CACHE, exist_ok=True)
    key = tree_hash()
    d = os.path.join(CACHE, "facts-%s-%s" % (mode, key))
    lock = open(os.path.join(CACHE, "lock-" + mode), "w")
    fcntl.flock(lock, fcntl.LOCK_EX)
    try:
        if os.path.exists(os.path.join(d, "COMPLETE")):
            try:
                os.utime(d, None)         # LRU
            except OSError:
                pass
            return d
        if os.path.exists(d):
            shutil.rmtree(d)
        tmp = d + ".tmp%d" % os.getpid()
        os.makedirs(tmp)
        args = ["--workspace"]
        if mode == "all":
            args += ["--all-targets", "--all-features"]
        t0 = time.time()
        r = subprocess.run([os.path.join(VERIF, "driver", "run.sh"), tmp] + args,
                           stdout=subprocess.PIPE, stderr=subprocess.STDOUT, text=True)
        if r.returncode != 0:
            shutil.rmtree(tmp, ignore_errors=True)
            raise CheckError("fact extraction failed (does /repo compile on nightly?):\n" + r.stdout[-4000:])
        with open(os.path.join(tmp, "COMPLETE"), "w") as fh:
            fh.write("%.1f\n" % (time.time() - t0))
        os.rename(tmp, d)
        # keep the cache small: drop every other set of the same mode
        olds = sorted((o for o in glob.glob(os.path.join(CACHE, "facts-%s-*" % mode)) if o != d and ".tmp" not in o),
                      key=os.path.getmtime, reverse=True)
        for old in olds[int(os.environ.get("VERIF_FACTS_KEEP", "3")):]:
            shutil.rmtree(old, ignore_errors=True)
        return d
    finally:
        fcntl.flock(lock, fcntl.LOCK_UN)
        lock.close()


# --------------------------------------------------------------------------- fact model

class Fn:
    def __init__(self, crate, j):
        self.crate = crate
        self.j = j
        self.id = j["def"]
        self.name = j["name"]
        self.kind = j["kind"]
        self.file = j["file"]
        self.line = j["line"]
        self.blocks = j["blocks"]
        self.locals = j["locals"]
        self.argc = j["argc"]
        self.impl = j.get("impl")
        self.trait_item = j.get("trait_item")
        self.parent = j.get("parent")
        self.root = j.get("root")
        self._dom = None
        self._preds = None
        self._defs = None

    def __repr__(self):
        return "<Fn %s>" % self.id

    @property
    def loc(self):
        return "%s:%s" % (self.file, self.line)

    # ---- CFG
    def succs(self, b, unwind=False):
        t = self.blocks[b]["t"]
        k = t["t"]
        out = []
        if k == "goto":
            out = [t["to"]]
        elif k == "switch":
            out = [x[1] for x in t["vals"]] + [t["else"]]
        elif k in ("call", "drop", "assert"):
            if t.get("to") is not None:
                out = [t["to"]]
            if unwind and t.get("unwind") is not None:
                out.append(t["unwind"])
        return out

    def preds(self):
        if self._preds is None:
            p = {i: [] for i in range(len(self.blocks))}
            for i in range(len(self.blocks)):
                for s in self.succs(i):
                    p[s].append(i)
            self._preds = p
        return self._preds

    def reachable(self, start=0, unwind=False, avoid=()):
        seen = set()
        st = [start]
        while st:
            b = st.pop()
            if b in seen or b in avoid:
                continue
            seen.add(b)
            st.extend(self.succs(b, unwind))
        return seen

    def dominators(self):
        """dom[b] = set of blocks dominating b (normal edges only, entry = 0)."""
        if self._dom is None:
            n = len(self.blocks)
            reach = self.reachable(0)
            allb = set(reach)
            dom = {b: set(allb) for b in reach}
            dom[0] = {0}
            preds = self.preds()
            changed = True
            order = sorted(reach)
            while changed:
                changed = False
                for b in order:
                    if b == 0:
                        continue
                    ps = [p for p in preds[b] if p in reach]
                    if not ps:
                        continue
                    new = set.intersection(*[dom[p] for p in ps]) | {b}
                    if new != dom[b]:
                        dom[b] = new
                        changed = True
            self._dom = dom
        return self._dom

    def dominates(self, a, b):
        d = self.dominators()
        return b in d and a in d[b]

    def calls(self):
        """yield (block index, terminator) for every call terminator"""
        for i, b in enumerate(self.blocks):
            if b["t"]["t"] in ("call", "tailcall"):
                yield i, b["t"]

    def ret_blocks(self):
        return [i for i, b in enumerate(self.blocks) if b["t"]["t"] == "ret" and not b.get("cleanup")]

    # ---- def-use
    def defs(self):
        """local -> list of (block, stmt index or 'T', rvalue-or-call) for whole-local assignments"""
        if self._defs is None:
            d = {}
            for bi, b in enumerate(self.blocks):
                for si, s in enumerate(b["s"]):
                    if s[0] == "=" and len(s[1]) == 1:
                        d.setdefault(s[1][0], []).append((bi, si, s[2]))
                t = b["t"]
                if t["t"] == "call" and len(t["dest"]) == 1:
                    d.setdefault(t["dest"][0], []).append((bi, "T", ["call", t]))
            self._defs = d
        return self._defs

    def single_def(self, local):
        ds = self.defs().get(local, [])
        ds = [x for x in ds if not self.blocks[x[0]].get("cleanup")]
        if len(ds) == 1:
            return ds[0]
        return None

    def origin(self, operand, depth=0):
        """Trace an operand back through plain moves/copies/refs/derefs to its origin.
        Returns ('const', c) | ('call', term, bi) | ('param', n, proj) | ('agg', kind, ops, bi) |
        ('place', place) | ('rvalue', rv, bi)."""
        if depth > 40:
            return ("place", None)
        k = operand[0]
        if k == "k":
            return ("const", operand[1])
        place = operand[1]
        return self.place_origin(place, depth)

    def place_origin(self, place, depth=0):
        local = place[0]
        proj = place[1:]
        # strip derefs: we follow references transparently
        rest = [p for p in proj if p != "*"]
        if 1 <= local <= self.argc and True:
            if not rest:
                return ("param", local, [])
            return ("param", local, rest)
        sd = self.single_def(local)
        if sd is None:
            return ("place", place)
        bi, si, rv = sd
        if rv[0] == "call":
            if rest:
                return ("place", place)
            return ("call", rv[1], bi)
        if rv[0] in ("use",):
            if rest:
                inner = rv[1]
                if inner[0] == "k":
                    return ("place", place)
                return self.place_origin([inner[1][0]] + inner[1][1:] + rest, depth + 1)
            return self.origin(rv[1], depth + 1)
        if rv[0] in ("ref", "cfd", "rawptr"):
            p2 = rv[2] if rv[0] in ("ref", "rawptr") else rv[1]
            return self.place_origin(list(p2) + rest, depth + 1)
        if rv[0] == "cast" and rv[1] in ("PointerCoercion(Unsize, Implicit)", "PointerCoercion(Unsize, AsCast)",
                                        "Transmute") or (rv[0] == "cast" and rv[1].startswith("PointerCoercion")):
            if rest:
                return ("place", place)
            return self.origin(rv[2], depth + 1)
        if rv[0] == "agg":
            if rest:
                # field selection out of an aggregate
                m = re.match(r"f(\d+):", rest[0])
                if m and rv[1]["k"] in ("tuple", "adt", "array", "closure"):
                    idx = int(m.group(1))
                    if idx < len(rv[2]):
                        op = rv[2][idx]
                        if len(rest) == 1:
                            return self.origin(op, depth + 1)
                        if op[0] != "k":
                            return self.place_origin(list(op[1]) + rest[1:], depth + 1)
                return ("place", place)
            return ("agg", rv[1], rv[2], bi)
        if rest:
            return ("place", place)
        return ("rvalue", rv, bi)


def callee_id(term):
    """Best identification of the function a call terminator goes to (resolved if possible)."""
    f = term["f"]
    if "def" not in f:
        return None
    return f.get("res") or f["def"]


def callee_name(term):
    f = term["f"]
    if "def" not in f:
        return "<indirect>"
    return f.get("res_name") or f["name"]


class Facts:
    def __init__(self, directory, want_tests=False):
        self.dir = directory
        self.crates = {}
        self.fns = {}
        self.impls = []
        self.adts = {}
        self.consts = {}
        self.traits = {}
        files = sorted(glob.glob(os.path.join(directory, "*.json")))
        for f in files:
            j = json.load(open(f))
            if j["is_test"] and not want_tests:
                continue
            cname = j["crate"]
            key = cname + (":test" if j["is_test"] else "")
            if j["is_test"]:
                # test builds of the lib repeat every lib item; keep them separate
                self.crates.setdefault(key, []).append(j)
                continue
            if "Executable" in "".join(j.get("crate_types", [])) and cname not in WORKSPACE_CRATES:
                self.crates.setdefault(cname + ":bin", []).append(j)
            self.crates.setdefault(cname, []).append(j)
            for fj in j["fns"]:
                self.fns[fj["def"]] = Fn(cname, fj)
            for i in j["impls"]:
                i["crate"] = cname
                self.impls.append(i)
            for a in j["adts"]:
                a["crate"] = cname
                self.adts[a["def"]] = a
            for c in j["consts"]:
                c["crate"] = cname
                self.consts[c["def"]] = c
            for t in j["traits"]:
                t["crate"] = cname
                self.traits[t["def"]] = t
        self.closures_of = {}
        for fn in self.fns.values():
            if fn.kind == "Closure":
                self.closures_of.setdefault(fn.root, []).append(fn)

    def require_crates(self, names):
        missing = [n for n in names if n not in self.crates]
        if missing:
            raise CheckError("no fact file for crate(s) %s (fail closed)" % missing)

    def fn_by_suffix(self, crate, *suffixes):
        """functions of `crate` whose pretty name ends with one of the suffixes"""
        out = []
        for fn in self.fns.values():
            if fn.crate == crate and any(fn.name.endswith(s) for s in suffixes):
                out.append(fn)
        return out

    def find_fns(self, crate=None, name_re=None, file_re=None, kind=None):
        out = []
        for fn in self.fns.values():
            if crate and fn.crate != crate:
                continue
            if name_re and not re.search(name_re, fn.name):
                continue
            if file_re and not re.search(file_re, fn.file):
                continue
            if kind and fn.kind != kind:
                continue
            out.append(fn)
        return sorted(out, key=lambda f: f.id)

    def with_closures(self, fn):
        """fn plus every closure nested in it"""
        if fn.kind == "Closure":
            sub = [c for c in self.closures_of.get(fn.root, []) if c.id.startswith(fn.id + "::")]
            return [fn] + sorted(sub, key=lambda f: f.id)
        return [fn] + sorted(self.closures_of.get(fn.id, []), key=lambda f: f.id)

    def impls_of_trait(self, trait_def):
        return [i for i in self.impls if i.get("trait") == trait_def]


# --------------------------------------------------------------------------- E2 bridge

def hexs(s):
    return s.encode("utf-8").hex()


class Relang:
    """Collects languages and emptiness obligations, runs the engine once."""

    def __init__(self):
        self.langs = {}
        self.obls = []

    def lang(self, name, pattern):
        assert re.match(r"^[A-Za-z0-9_]+$", name), name
        self.langs[name] = pattern

    def empty(self, oid, expr, k=3):
        """obligation: boolean combination `expr` (prefix notation over language names) is empty"""
        self.obls.append((oid, k, expr))

    def subset(self, oid, a, b, k=3):
        self.empty(oid, "& %s ! %s" % (a, b), k)

    def equal(self, oid, a, b, k=3):
        self.subset(oid + ".sub", a, b, k)
        self.subset(oid + ".sup", b, a, k)

    def disjoint(self, oid, a, b, k=3):
        self.empty(oid, "& %s %s" % (a, b), k)

    def run(self):
        ensure_tools()
        script = []
        for n, p in self.langs.items():
            script.append("lang %s %s" % (n, hexs(p)))
        for oid, k, e in self.obls:
            script.append("empty %s %d %s" % (oid, k, e))
        r = subprocess.run([RELANG], input="\n".join(script) + "\n", stdout=subprocess.PIPE,
                           stderr=subprocess.PIPE, text=True)
        if r.returncode != 0:
            raise CheckError("language engine failed: " + r.stderr[-2000:])
        langs, res = {}, {}
        for line in r.stdout.splitlines():
            j = json.loads(line)
            if "lang" in j:
                langs[j["lang"]] = j
            else:
                j["witnesses"] = [bytes.fromhex(w).decode("utf-8", "replace") for w in j["witnesses"]]
                res[j["id"]] = j
        return langs, res


# --------------------------------------------------------------------------- verdict plumbing

class Finding:
    def __init__(self, rule, key, msg, loc=None, detail=None):
        self.rule = rule
        self.key = key          # stable key, no line numbers
        self.msg = msg
        self.loc = loc
        self.detail = detail or {}


def load_known_findings():
    """KNOWN_FINDINGS.txt lines:  finding: property=<id> key=<key | "key with spaces"> <text>   |   fixed: property=<id> <commit> <text>"""
    out = {}
    p = os.path.join(VERIF, "KNOWN_FINDINGS.txt")
    if not os.path.exists(p):
        return out
    for line in open(p):
        line = line.strip()
        m = re.match(r'^finding:\s+property=(\S+)\s+key=(?:"([^"]+)"|(\S+))\s+(.*)$', line)
        if m:
            out.setdefault(m.group(1), {})[m.group(2) or m.group(3)] = m.group(4)
    return out


class Probe:
    """Stands in for a Check when a rule is run on the control crate: records what would have been reported."""
    def __init__(self):
        self.keys, self.oks, self.extra, self.assumptions, self.trusted, self.findings = [], [], {}, [], [], []

    def ok(self, rule, instance, note="", nontrivial=True, **kw):
        self.oks.append((rule, str(instance)))

    def bad(self, rule, key, msg, loc=None, instance=None, **detail):
        self.keys.append(key)

    def floor(self, *a, **k):
        pass

    def obligation(self, *a, **k):
        pass

    def control(self, *a, **k):
        pass

    def fired(self, pattern):
        return any(re.search(pattern, k) for k in self.keys)


def fixture_fn(name):
    fx = fixture_facts()
    fns = [f for f in fx.fns.values() if f.name == name]
    if len(fns) != 1:
        raise CheckError("control `%s` not found in the fixture crate (fail closed)" % name)
    return fns[0]


class Check:
    """One run of one property's check."""

    def __init__(self, prop, tier, level, explanation):
        self.prop = prop
        self.tier = tier
        self.level = level
        self.explanation = explanation
        self.t0 = time.time()
        self.findings = []
        self.instances = []      # every rule instance analysed: dict(rule, instance, verdict, ...)
        self.obligations = 0
        self.discharged = 0
        self.assumptions = []
        self.extra = {}
        self.trusted = []
        self.checker_cmd = "./check %s --tier %s" % (prop, tier)
        self.seed = int(os.environ.get("VERIF_SEED", "0") or 0)

    # rule instance bookkeeping
    def ok(self, rule, instance, note="", nontrivial=True, **kw):
        d = dict(rule=rule, instance=instance, verdict="ok", note=note, nontrivial=nontrivial)
        d.update(kw)
        self.instances.append(d)

    def bad(self, rule, key, msg, loc=None, instance=None, **detail):
        self.instances.append(dict(rule=rule, instance=instance or key, verdict="VIOLATED", note=msg,
                                   nontrivial=True, loc=loc))
        self.findings.append(Finding(rule, key, msg, loc, detail))

    def obligation(self, oid, held, note="", witnesses=None, **kw):
        self.obligations += 1
        d = dict(rule="language", instance=oid, verdict="ok" if held else "VIOLATED", note=note, nontrivial=True)
        if witnesses:
            d["witnesses"] = witnesses
        d.update(kw)
        self.instances.append(d)
        if held:
            self.discharged += 1

    def control(self, rule, name, fired, expect=True, note=""):
        """Outcome of running a detector on a control of the fixture crate (driver/fixtures): positive controls must
        fire, negative ones must stay silent.  A wrong outcome means the *checker* is broken: fail closed."""
        if bool(fired) != bool(expect):
            self.bad(rule, "%s@control:%s" % (rule, name),
                     "checker self-test failed: the detector of %s %s on the control `%s` of /verif/driver/fixtures "
                     "(expected: %s) — the rule cannot be trusted on /repo" % (
                         rule, "fired" if fired else "stayed silent", name, "fire" if expect else "silent"))
        else:
            self.instances.append(dict(rule=rule, instance="control:%s" % name, verdict="ok", nontrivial=False,
                                       note=("positive control: detector fired" if expect else
                                             "negative control: detector silent") + ((" — " + note) if note else "")))
            self.extra.setdefault("controls", []).append("%s:%s=%s" % (rule, name, "fired" if expect else "silent"))

    def floor(self, rule, what, count, minimum):
        """fail closed if fewer rule instances than confirmed by hand"""
        if count < minimum:
            self.bad(rule, "%s@floor:%s" % (rule, what),
                     "anchor-missing: only %d instance(s) of %s found, at least %d expected (a rule matching "
                     "nothing would pass vacuously)" % (count, what, minimum))
        else:
            self.ok(rule, "floor:%s" % what, "%d >= %d" % (count, minimum), nontrivial=False)

    def finish(self):
        known = load_known_findings().get(self.prop, {})
        out_root = os.environ.get("VERIF_OUT") or VERIF       # VERIF_OUT: used by the self-test runner only
        os.makedirs(os.path.join(out_root, "evidence"), exist_ok=True)
        rep_dir = os.path.join(out_root, "reports", self.prop)
        if os.path.isdir(rep_dir):
            shutil.rmtree(rep_dir)
        violations = []
        known_hit = []
        for f in self.findings:
            if f.key in known:
                known_hit.append(f)
            else:
                violations.append(f)
        lines = []
        for f in known_hit:
            lines.append("KNOWN-FINDING: property=%s %s — %s%s" % (self.prop, f.key, f.msg,
                                                                    (" [%s]" % f.loc) if f.loc else ""))
        for f in violations:
            os.makedirs(rep_dir, exist_ok=True)
            fname = re.sub(r"[^A-Za-z0-9_.@#-]+", "_", f.key)[:150] + ".json"
            path = os.path.join(rep_dir, fname)
            with open(path, "w") as fh:
                json.dump(dict(property=self.prop, rule=f.rule, key=f.key, message=f.msg, location=f.loc,
                               detail=f.detail, tier=self.tier), fh, indent=1, default=str)
            lines.append("VIOLATION property=%s replay=%s" % (self.prop, path))
            lines.append("  rule=%s key=%s%s\n  %s" % (f.rule, f.key, (" at %s" % f.loc) if f.loc else "", f.msg))
        nontrivial = {(i["rule"], str(i["instance"])) for i in self.instances if i.get("nontrivial")}
        samples = []
        seen_rules = {}
        for i in self.instances:
            c = seen_rules.get(i["rule"], 0)
            if c < 4 or i["verdict"] != "ok":
                samples.append({k: v for k, v in i.items() if v not in (None, "")})
            seen_rules[i["rule"]] = c + 1
        per_rule = {}
        for i in self.instances:
            per_rule.setdefault(i["rule"], {"analysed": 0, "violated": 0})
            per_rule[i["rule"]]["analysed"] += 1
            if i["verdict"] != "ok":
                per_rule[i["rule"]]["violated"] += 1
        cov = dict(
            explanation=self.explanation,
            evaluations=len(self.instances),
            distinct_nontrivial=len(nontrivial),
            rule="one evaluation = one rule instance (a function, call site, table entry or language obligation) "
                 "decided on /repo's current source; non-trivial = the instance constrained something "
                 "(floors and bookkeeping excluded); distinct by (rule, instance key)",
            samples=samples[:60],
            per_rule=per_rule,
            known_findings=[f.key for f in known_hit],
            exhaustive=True,
        )
        if self.obligations:
            cov.update(obligations=self.obligations, discharged=self.discharged,
                       checker_cmd=self.checker_cmd, trusted_base=self.trusted)
        elif self.level == "proof":
            cov.update(obligations=0, discharged=0, checker_cmd=self.checker_cmd, trusted_base=self.trusted)
        cov.update(self.extra)
        ev = dict(property_id=self.prop, tier=self.tier, seed=self.seed, level=self.level, coverage=cov,
                  assumptions=self.assumptions, wall_s=round(time.time() - self.t0, 2),
                  violations=len(violations))
        with open(os.path.join(out_root, "evidence", self.prop + ".json"), "w") as fh:
            json.dump(ev, fh, indent=1, default=str)
        for l in lines:
            print(l)
        print("%s: %d rule instances analysed, %d violation(s), %d known finding(s), %.1fs" % (
            self.prop, len(self.instances), len(violations), len(known_hit), time.time() - self.t0))
        return 1 if violations else 0
