"""C15 — streams deliver exactly the prefix before a failure and blame the right side: error discipline."""
import re
import errflow
from core import CheckError
from mirutil import (call_name_matches, provenance, bool_switch, edge_dominates, enumerate_paths, blocks_with_agg,
                     forward_aliases, try_success_edge, TRANSPARENT, closure_upvars, upvar_index)

LEVEL = "other"
EXPLANATION = (
    "Decides the error-discipline clauses of C15 over the MIR of the stream machinery (api/src/source/**, rio/src/parser.rs, "
    "the bulk operations of graph.rs/dataset.rs, every serializer's serialize_* and the in-memory collectors). "
    "(R15.1) every Result produced by a call is consumed on every path to a normal return: returned, `?`-ed, matched "
    "with its Err payload used, stored or handed on — never `.ok()`/`is_ok()`/`unwrap_or*`/unused, and never left "
    "behind on an early-return path. (R15.2) an adapter's inner closure invokes the downstream callback at most once per "
    "item on every path. (R15.3) blame: a value wrapped in SourceError never derives from a callback result, a value "
    "wrapped in SinkError always derives from a callback / sink operation, and every function that matches on a stream "
    "error rebuilds the same variant (only `reverse` may swap, and no adapter calls it). (R15.4) try_for_each_item "
    "re-invokes try_for_some_item exactly while it returns Ok(true). (R15.6) a buffer swapped out of `self` is swapped "
    "back on every path. (R15.7) a buffer of Result items that one function both fills and drains is first-in-first-out "
    "(push_back/pop_front; never push/pop), so items and the error that ends them keep their order. NOT decided: the position bookkeeping of the third-party parsers; item order inside them.")

SCOPE = (r"api/src/source|api/src/(graph|dataset)\.rs$|api/src/(graph|dataset)/(adapter|_foreign_impl)\.rs$|rio/src/(parser|serializer)\.rs$|"
         r"/serializer|inmem/src/|jsonld/src/parser|api/src/serializer\.rs$|api/src/parser\.rs$")
CALLBACK = r"ops::FnMut<.*>>?::call_mut$|ops::Fn<.*>>?::call$|ops::FnOnce<.*>>?::call_once$|ops::FnMut::call_mut$|ops::Fn::call$|ops::FnOnce::call_once$"
SOURCE_OPS = r"iter::Iterator::next$|Iterator>::next$|TriplesParser::parse_step$|QuadsParser::parse_step$|GeneralizedQuadsParser::parse_step$|::parse_step$"
VALUE_ATTEMPTS = r"::try_reserve(_exact)?$|str>::parse$|convert::TryFrom::try_from$|convert::TryInto::try_into$|^sophia_iri::Iri(Ref)?::<T>::new$|^sophia_api::term::(BnodeId|LanguageTag|VarName)::<T>::new$"
STREAM_ERR = ("sophia_api::source::_stream_error::StreamError",)


def in_scope(fn):
    return bool(re.search(SCOPE, fn.file))


def chain_has(fn, operand, pattern, param_receiver=False):
    for o in provenance(fn, operand, transparent=TRANSPARENT + (r"Result::<T, E>::map_err$", r"ops::Try>?::branch$", r"Result::<T, E>::err$")):
        if o[0] == "call" and call_name_matches(o[1], pattern):
            return o
    return None


def blame_rule(ck, facts, fns):
    n = 0
    for fn in fns:
        # direct constructions
        for bi, si, dest, ops in blocks_with_agg(fn, STREAM_ERR[0]):
            vname = fn.blocks[bi]["s"][si][2][1]["vname"]
            n += 1
            key = "R15.3@%s#%s" % (fn.name, vname)
            cb = chain_has(fn, ops[0], CALLBACK)
            so = chain_has(fn, ops[0], SOURCE_OPS)
            matched = None
            o = provenance(fn, ops[0], transparent=())[-1]
            src_place = o if o[0] in ("place", "param") else None
            # payload taken out of a matched stream error: same variant required
            pl = None
            if o[0] == "param" and o[2]:
                pl = o[2]
            elif o[0] == "place" and o[1]:
                pl = o[1][1:]
            if not pl and o[0] == "call" and call_name_matches(o[1], CALLBACK) and len(o[1]["args"]) > 1:
                tup = fn.origin(o[1]["args"][1])
                if tup[0] == "agg" and tup[1]["k"] == "tuple" and tup[2]:
                    o2 = provenance(fn, tup[2][0], transparent=())[-1]
                    if o2[0] == "param" and o2[2]:
                        pl = o2[2]
                    elif o2[0] == "place" and o2[1]:
                        pl = o2[1][1:]
            if pl:
                for p in pl:
                    m = re.match(r"d\d+:(\w+)$", p)
                    if m and m.group(1) in ("SourceError", "SinkError", "Source", "Sink"):
                        matched = m.group(1)
            if matched:
                want = {"SourceError": "SourceError", "Source": "SourceError", "SinkError": "SinkError", "Sink": "SinkError"}[matched]
                if want != vname and not fn.name.endswith("StreamError::<SourceErr, SinkErr>::reverse"):
                    ck.bad("R15.3", key + "#swapped", "%s rebuilds a %s from the payload of a %s" % (fn.name, vname, matched), fn.loc)
                else:
                    ck.ok("R15.3", "%s: %s -> %s" % (fn.name, matched, vname))
                continue
            if vname == "SourceError" and cb:
                ck.bad("R15.3", key + "#callback-as-source", "a callback/sink failure is reported as SourceError in %s" % fn.name, fn.loc)
            elif vname == "SinkError" and so and not cb:
                ck.bad("R15.3", key + "#source-as-sink", "a source failure is reported as SinkError in %s" % fn.name, fn.loc)
            else:
                ck.ok("R15.3", "%s: %s(%s)" % (fn.name, vname, "callback result" if cb else "source result" if so else "value"))
        # constructors passed as functions: .map_err(SinkError) / .map_err(SourceError)
        for bi, t in fn.calls():
            for a in t["args"]:
                if a[0] == "k" and a[1].get("kind") == "fn" and re.search(r"StreamError::(SourceError|SinkError)::\{constructor#0\}$|StreamError::(SourceError|SinkError)$", a[1].get("def", "")):
                    vname = "SourceError" if "SourceError" in a[1]["def"] else "SinkError"
                    n += 1
                    key = "R15.3@%s#map_err(%s)" % (fn.name, vname)
                    recv = t["args"][0]
                    cb = chain_has(fn, recv, CALLBACK + r"|Mutable(Graph|Dataset)>?::(insert|remove)\w*$|io::Write|serializer|Serializer")
                    so = chain_has(fn, recv, SOURCE_OPS)
                    if vname == "SinkError" and so and not cb:
                        ck.bad("R15.3", key + "#source-as-sink", "the result of a source operation is mapped to SinkError", "%s:%s" % (t["file"], t["line"]))
                    elif vname == "SourceError" and cb:
                        ck.bad("R15.3", key + "#callback-as-source", "the result of the callback is mapped to SourceError", "%s:%s" % (t["file"], t["line"]))
                    else:
                        ck.ok("R15.3", "%s: map_err(%s) on %s" % (fn.name, vname, "a callback/sink result" if cb else "a result"))
            if call_name_matches(t, r"StreamError::<SourceErr, SinkErr>::reverse$"):
                ck.bad("R15.3", "R15.3@%s#reverse" % fn.name, "an adapter calls StreamError::reverse()", "%s:%s" % (t["file"], t["line"]))
    return n


def rio_variant_rule(ck, facts):
    fns = facts.find_fns(crate="sophia_rio", name_re=r"From<parser::RioStreamError<E1, E2>> for sophia_api::source::StreamError<E1, E2>>::from$")
    if len(fns) != 1:
        ck.bad("R15.3", "R15.3@RioStreamError::from#anchor", "anchor-missing: From<RioStreamError> for StreamError (%d)" % len(fns))
        return
    # handled by blame_rule's matched-variant check; here only the floor
    ck.ok("R15.3", "From<RioStreamError> for StreamError present", nontrivial=False)


def callback_once_rule(ck, facts, fns):
    n = 0
    for fn in fns:
        if fn.kind != "Closure":
            continue
        # closures that call a captured callback
        parent = facts.fns.get(fn.parent)
        downstream = set()
        if parent is not None:
            for b in parent.blocks:
                for st in b["s"]:
                    if st[0] == "=" and st[2][0] == "agg" and st[2][1].get("k") == "closure" and st[2][1].get("def") == fn.id:
                        for idx, op in enumerate(st[2][2]):
                            o = provenance(parent, op, transparent=())[-1]
                            if o[0] == "param" and o[1] == 2 and not [p for p in o[2] if p != "*"]:
                                downstream.add(idx)

        def tok(t, fn=fn, downstream=downstream):
            if call_name_matches(t, CALLBACK):
                o = provenance(fn, t["args"][0], transparent=())[-1]
                if o[0] == "param" and o[1] == 1 and o[2]:
                    m = re.match(r"f(\d+):", [p for p in o[2] if p != "*"][0]) if [p for p in o[2] if p != "*"] else None
                    if m and int(m.group(1)) in downstream:
                        return "CB"
            return None
        has = any(tok(t) for _, t in fn.calls())
        if not has:
            continue
        root = facts.fns.get(fn.root)
        if root is None or not re.search(r"try_for_some_item$", root.name):
            continue
        n += 1
        try:
            paths = enumerate_paths(fn, 0, tok)
        except CheckError as e:
            ck.bad("R15.2", "R15.2@%s#shape" % fn.name, str(e), fn.loc)
            continue
        worst = max((toks.count("CB") for _, toks in paths), default=0)
        if worst > 1:
            ck.bad("R15.2", "R15.2@%s#twice" % fn.name, "the downstream callback can be invoked %d times for one item" % worst, fn.loc)
        else:
            ck.ok("R15.2", "%s: callback invoked at most once per item (%d paths)" % (fn.name, len(paths)))
    return n


def each_item_rule(ck, facts):
    fns = facts.find_fns(crate="sophia_api", name_re=r"^source::Source::try_for_each_item$")
    if len(fns) != 1:
        ck.bad("R15.4", "R15.4@try_for_each_item#anchor", "anchor-missing: Source::try_for_each_item (%d)" % len(fns))
        return
    fn = fns[0]
    calls = [(bi, t) for bi, t in fn.calls() if call_name_matches(t, r"Source::try_for_some_item$")]
    if len(calls) != 1:
        ck.bad("R15.4", "R15.4@try_for_each_item#shape", "expected one call to try_for_some_item", fn.loc)
        return
    bi, t = calls[0]
    edge = try_success_edge(fn, t)
    if not edge:
        ck.bad("R15.4", "R15.4@try_for_each_item#no-propagation", "the step result is not propagated with `?`", fn.loc)
        return
    sb, cont, brk = edge
    # after Continue: bool switch on the payload: true -> back to the call, false -> return Ok
    sw = None
    for cand in sorted(fn.reachable(cont)):
        bs = bool_switch(fn, cand)
        if bs:
            sw = (cand, bs[1], bs[2])
            break
    if not sw:
        ck.bad("R15.4", "R15.4@try_for_each_item#no-loop-test", "the boolean of the step is not tested", fn.loc)
        return
    cand, true_t, false_t = sw
    loops = bi in fn.reachable(true_t)
    stops = bi not in fn.reachable(false_t)
    if loops and stops:
        ck.ok("R15.4", "try_for_each_item: repeats while Ok(true), stops on Ok(false), `?` on Err")
    else:
        ck.bad("R15.4", "R15.4@try_for_each_item#loop", "loop condition not recognised (repeats on true=%s, stops on false=%s)" % (loops, stops), fn.loc)


def self_field_of(fn, operand):
    """the field of `self` an operand borrows (`&mut self.buffer` -> "buffer"), or None"""
    if operand[0] == "k":
        return None
    o = fn.origin(operand)
    if o[0] == "param" and o[1] == 1:
        for x in o[2]:
            m = re.match(r"f\d+:(\w+)$", str(x))
            if m:
                return m.group(1)
    return None


def buffer_events(fn):
    """per block: the events that move a buffer out of / back into a field of self: mem::swap(&mut self.f, ..) toggles,
    mem::take(&mut self.f) / mem::replace(&mut self.f, ..) takes it out, an assignment `self.f = ..` puts one back"""
    ev = {}
    fields = set()
    for bi, t in fn.calls():
        if call_name_matches(t, r"^(std|core)::mem::swap$"):
            ev.setdefault(bi, []).append(("t", "toggle"))
        elif call_name_matches(t, r"^(std|core)::mem::(take|replace)$") and t["args"]:
            f = self_field_of(fn, t["args"][0])
            if f:
                fields.add(f)
                ev.setdefault(bi, []).append(("t", "out"))
    for bi, b in enumerate(fn.blocks):
        for st in b["s"]:
            if st[0] == "=" and st[1] and st[1][0] == 1 and len(st[1]) > 1:
                m = re.match(r"f\d+:(\w+)$", str(st[1][-1]))
                if m and m.group(1) in fields:
                    ev.setdefault(bi, []).insert(0, ("s", "in"))
    # a Drop-and-assign of the field compiles to a `drop` terminator followed by the assignment: covered by the statement form
    return ev


def swap_parity_rule(ck, facts, fns):
    import core
    for name, expect in (("Taken::pos_taken_not_restored", True), ("Taken::neg_taken_and_restored", False)):
        f = core.fixture_fn(name)
        ck.control("R15.6", name, bool(unrestored_returns(f)), expect)
    n = 0
    for fn in fns:
        if not (re.search(r"api/src/source", fn.file) and re.search(r"Iterator>::next$", fn.name)):
            continue
        if not buffer_events(fn):
            continue
        n += 1
        if unrestored_returns(fn):
            ck.bad("R15.6", "R15.6@%s#swap-not-restored" % fn.name, "a buffer swapped out of self is not swapped back on a path to "
                   "return: items already buffered are lost", fn.loc)
        else:
            ck.ok("R15.6", "%s: swaps paired on every path" % fn.name)
    return n


def unrestored_returns(fn):
    """return blocks reachable with the buffer still outside self (state 1)"""
    ev = buffer_events(fn)

    def step(p, b):
        for _, e in ev.get(b, ()):
            p = (p ^ 1) if e == "toggle" else (1 if e == "out" else 0)
        return p
    par = {0: {0}}
    work = [0]
    while work:
        b = work.pop()
        for p in list(par[b]):
            q = step(p, b)
            for s_ in fn.succs(b):
                if q not in par.setdefault(s_, set()):
                    par[s_].add(q)
                    work.append(s_)
    return [r for r in fn.ret_blocks() if 1 in {step(p, r) for p in par.get(r, set())}]


def writer_rule(ck, facts):
    """R15.5: in the line-oriented serializers each item's bytes reach the serializer's own writer before the item
    closure returns: a path that writes into any other buffer must later write to the `write` field."""
    n = 0
    for name_re, what in [(r"NtSerializer<W> as .*TripleSerializer>::serialize_triples$", "nt"),
                          (r"NqSerializer<W> as .*QuadSerializer>::serialize_quads$", "nq")]:
        fns = facts.find_fns(crate="sophia_turtle", name_re=name_re)
        if len(fns) != 1:
            ck.bad("R15.5", "R15.5@%s#anchor" % what, "anchor-missing: %s serializer (%d)" % (what, len(fns)))
            continue
        root = fns[0]
        for c in facts.with_closures(root)[1:]:
            ups = closure_upvars(facts, c)

            def tok(t, c=c, ups=ups):
                if not call_name_matches(t, r"serializer::nt::write_(triple|term)$|io::Write::write_all$|io::Write::write$|Vec::<T, A>::(extend_from_slice|push|extend)$|String::push(_str)?$|io::Write::write_fmt$"):
                    return None
                idx = upvar_index(c, t["args"][0])
                if idx is not None and idx < len(ups):
                    o = ups[idx]
                    path = o[2] if o[0] == "param" else (o[1][1:] if o[0] == "place" and o[1] else [])
                    names = [p.split(":", 1)[1] for p in path if ":" in p]
                    if o[0] == "param" and o[1] == 1 and "write" in names:
                        return "W"
                    return "B"
                o = provenance(c, t["args"][0], transparent=())[-1]
                path = o[2] if o[0] == "param" else (o[1][1:] if o[0] == "place" and o[1] else [])
                names = [p.split(":", 1)[1] for p in path if ":" in p]
                return "W" if "write" in names else "B"
            if not any(tok(t) for _, t in c.calls()):
                continue
            n += 1
            try:
                paths = enumerate_paths(c, 0, tok)
            except CheckError as e:
                ck.bad("R15.5", "R15.5@%s#shape" % what, str(e), c.loc)
                continue
            bad = [toks for _, toks in paths if "B" in toks and "W" not in toks[len(toks) - toks[::-1].index("B"):]]
            if bad:
                ck.bad("R15.5", "R15.5@%s#buffered-item" % what, "the %s serializer can return from an item with its bytes still in an "
                       "intermediate buffer (not yet handed to the writer): on a later failure the consumer has not received the "
                       "items before it" % what, c.loc)
            else:
                ck.ok("R15.5", "%s serializer: every item is written to self.write before the closure returns (%d paths)" % (what, len(paths)))
    return n


def fifo_rule(ck, facts, fns):
    """R15.7: items (and the error that ends them) leave an intermediate buffer in the order they entered it.  For every
    function of the scope (with its closures) that both fills and drains a Vec/VecDeque of `Result` items, the pair
    (fill end, drain end) must be first-in-first-out: push_back/pop_front, push_front/pop_back, Vec::push with
    remove(0) / drain / into_iter.  push_back/pop_back or Vec::push/Vec::pop reverses the items of a multi-item step and
    yields a trailing error *before* the items that preceded it."""
    BUF = r"^&mut (std::collections::VecDeque|std::vec::Vec)<std::result::Result<"
    n = 0
    done = set()
    for fn in fns:
        root = fn if fn.kind != "Closure" else facts.fns.get(fn.root, fn)
        if root.id in done:
            continue
        done.add(root.id)
        fill, drain = set(), set()
        for f in facts.with_closures(root):
            for bi, t in f.calls():
                if not t["args"] or t["args"][0][0] == "k":
                    continue
                a0 = t["args"][0][1]
                if len(a0) != 1 or not re.search(BUF, f.locals[a0[0]]["ty"]):
                    continue
                m = re.search(r"(VecDeque|Vec)::<T, A>::(push_back|push_front|push|insert|pop_front|pop_back|pop|remove|swap_remove|drain)$",
                              t["f"].get("name") or "")
                if not m:
                    continue
                op = "%s::%s" % (m.group(1), m.group(2))
                (fill if m.group(2) in ("push_back", "push_front", "push", "insert") else drain).add(op)
        if not fill or not drain:
            continue
        n += 1
        lifo = {("VecDeque::push_back", "VecDeque::pop_back"), ("VecDeque::push_front", "VecDeque::pop_front"),
                ("Vec::push", "Vec::pop"), ("Vec::push", "Vec::swap_remove")}
        bad = sorted((a, b) for a in fill for b in drain if (a, b) in lifo)
        if bad:
            ck.bad("R15.7", "R15.7@%s#lifo-buffer" % root.name,
                   "%s fills its buffer of items with %s and drains it with %s: last-in-first-out, the items of a multi-item "
                   "step come out reversed and a trailing error overtakes them" % (root.name, bad[0][0], bad[0][1]), root.loc)
        else:
            ck.ok("R15.7", "%s: buffer of items is first-in-first-out (%s / %s)" % (root.name, sorted(fill), sorted(drain)))
    return n


def partial_write_hits(fn):
    """calls to io::Write::write whose returned byte count is never looked at (the value is only `?`-ed / mapped / dropped)"""
    from c19 import tainted_locals
    out = []
    for bi, t in fn.calls():
        if not call_name_matches(t, r"io::Write::write$|io::Write>::write$") or len(t["dest"]) != 1:
            continue
        taint = tainted_locals(fn, {t["dest"][0]})
        used = False
        for b in fn.blocks:
            for st in b["s"]:
                # the count is used when a usize derived from the result takes part in arithmetic, a comparison or an index
                if st[0] == "=" and st[2][0] in ("bin",) and any(o[0] != "k" and o[1][0] in taint for o in st[2][2:4]):
                    used = True
            tt = b["t"]
            if tt["t"] == "call" and tt is not t and call_name_matches(tt, r"ops::Index|ops::Range|slice::|usize") and \
                    any(a[0] != "k" and a[1][0] in taint and fn.locals[a[1][0]]["ty"] == "usize" for a in tt["args"]):
                used = True
        for l in taint:
            if fn.locals[l]["ty"] == "usize":
                for b in fn.blocks:
                    for st in b["s"]:
                        if st[0] == "=" and st[2][0] == "agg" and any(o[0] != "k" and o[1][0] == l for o in st[2][2]):
                            used = True      # e.g. RangeFrom { start: n }
        if not used:
            out.append((bi, t))
    return out


def partial_write_rule(ck, facts, fns):
    """R15.8: what is handed to the writer is written completely: no `io::Write::write` whose byte count is ignored (a short
    write silently truncates the output while Ok is returned); `write_all`, or a loop that advances by the count."""
    n = 0
    for fn in fns:
        for bi, t in partial_write_hits(fn):
            root = fn if fn.kind != "Closure" else facts.fns.get(fn.root, fn)
            ck.bad("R15.8", "R15.8@%s#partial-write" % root.name, "%s calls io::Write::write and ignores the number of bytes written: a writer "
                   "that accepts fewer bytes per call receives a truncated output and the serializer still returns Ok" % root.name,
                   "%s:%s" % (t["file"], t["line"]))
        n += sum(1 for _, t in fn.calls() if call_name_matches(t, r"io::Write::write_all$|io::Write>::write_all$|io::Write::write_fmt$"))
    ck.ok("R15.8", "no io::Write::write with an ignored byte count", "%d write_all / write_fmt calls in scope" % n, nontrivial=False)
    return n


def rewrapped_io_errors(fn):
    """R15.9: io::Error::new(kind, e) / io::Error::other(e) whose payload is itself an io::Error (the writer's error re-wrapped:
    kind and raw OS error are lost)"""
    out = []
    for bi, t in fn.calls():
        if call_name_matches(t, r"^std::io::Error::(new|other)$"):
            subs = t["f"].get("substs") or []
            if any(sx.strip() == "std::io::Error" for sx in subs):
                out.append(t)
    return out


def constant_zero_hints(facts):
    """names (last path segment) of size-hint methods all of whose bodies in the workspace return the constant (0, ..):
    nothing can be pre-allocated from them"""
    by = {}
    for f in facts.fns.values():
        m = re.search(r"(size_hint_\w+)$", f.name)
        if not m or f.kind == "Closure":
            continue
        const0 = not list(f.calls()) and any(st[0] == "=" and st[1] == [0] and st[2][0] == "agg" and st[2][1].get("k") == "tuple"
                                             and st[2][2] and st[2][2][0][0] == "k" and st[2][2][0][1].get("v") == "0" for b in f.blocks for st in b["s"])
        by.setdefault(m.group(1), []).append(const0)
    return {k for k, v in by.items() if v and all(v)}


def capacity_from_hint(fn, zero_hints=()):
    """R15.10: with_capacity(size_hint.0): a hint is not a promise; a huge lower bound makes the allocation panic"""
    out = []
    for bi, t in fn.calls():
        if call_name_matches(t, r"::with_capacity(_and_hasher|_in)?$") and t["args"]:
            for p in provenance(fn, t["args"][0]):
                if p[0] == "call" and re.search(r"size_hint(_\w+)?$", p[1]["f"].get("name") or ""):
                    if (p[1]["f"].get("name") or "").split("::")[-1] in zero_hints:
                        continue        # every implementation of this hint answers (0, ..)
                    out.append(t)
                    break
    return out


def sink_error_rules(ck, facts, fns):
    import core
    ck.control("R15.9", "pos_rewrapped_io_error", any(rewrapped_io_errors(c) for c in core.fixture_facts().with_closures(core.fixture_fn("pos_rewrapped_io_error"))))
    ck.control("R15.9", "neg_io_error_from_message", any(rewrapped_io_errors(c) for c in core.fixture_facts().with_closures(core.fixture_fn("neg_io_error_from_message"))), expect=False)
    ck.control("R15.10", "pos_capacity_from_hint", bool(capacity_from_hint(core.fixture_fn("pos_capacity_from_hint"))))
    ck.control("R15.10", "neg_try_reserve_from_hint", bool(capacity_from_hint(core.fixture_fn("neg_try_reserve_from_hint"))), expect=False)
    n9 = n10 = 0
    zero = constant_zero_hints(facts)
    for fn in fns:
        root = fn if fn.kind != "Closure" else facts.fns.get(fn.root, fn)
        for t in rewrapped_io_errors(fn):
            n9 += 1
            ck.bad("R15.9", "R15.9@%s#rewrapped-io-error" % panics_key(root.name), "%s wraps an io::Error of the writer in a new io::Error: a "
                   "BrokenPipe or an OS error (ENOSPC) reaches the caller with another kind and no raw OS error - the original error value "
                   "is not what is reported" % root.name, "%s:%s" % (t["file"], t["line"]))
        for t in capacity_from_hint(fn, zero):
            n10 += 1
            ck.bad("R15.10", "R15.10@%s#capacity-from-hint" % panics_key(root.name), "%s allocates the lower bound of a size hint up front: for a "
                   "fallible source the bound also counts the items after the first error, and a huge bound panics (capacity overflow) "
                   "instead of delivering the source's error" % root.name, "%s:%s" % (t["file"], t["line"]))
    if not n9:
        ck.ok("R15.9", "no writer error is re-wrapped in the stream/serializer scope")
    if not n10:
        ck.ok("R15.10", "no collector allocates a (possibly non-zero) size hint up front; hints that are constantly 0 in the workspace: %s" % sorted(zero))
    # R15.11: a filtering adapter must not forward the lower bound of its source
    n11 = 0
    for fn in facts.fns.values():
        if fn.crate == "sophia_api" and re.search(r"source::filter(_map)?::.*size_hint(_\w+)?$", fn.name) and fn.kind != "Closure":
            n11 += 1
            fw = [t for _, t in fn.calls() if re.search(r"size_hint(_\w+)?$", t["f"].get("name") or "") and t["dest"] == [0]]
            if fw:
                ck.bad("R15.11", "R15.11@%s#forwards-lower-bound" % panics_key(fn.name), "%s returns the size hint of the unfiltered source: the lower "
                       "bound promises items the filter may drop" % fn.name, fn.loc)
            else:
                ck.ok("R15.11", "%s does not forward the source's lower bound" % fn.name)
    for fn in facts.fns.values():
        if fn.crate == "sophia_api" and re.search(r"source::map::MapSourceIterator<.*> as std::iter::Iterator>::size_hint$", fn.name):
            n11 += 1
            lens = [t for _, t in fn.calls() if call_name_matches(t, r"VecDeque::<T, A>::len$|VecDeque::<T>::len$")]
            if lens:
                ck.ok("R15.11", "%s adds its buffered items to the hint" % fn.name)
            else:
                ck.bad("R15.11", "R15.11@%s#ignores-buffer" % panics_key(fn.name), "%s forwards the source's hint although items already pulled from "
                       "the source sit in its buffer: (0, Some(0)) is reported while two items follow" % fn.name, fn.loc)
    ck.floor("R15.11", "size hints of filtering / buffering adapters", n11, 6)


def panics_key(name):
    import panics
    return panics.norm_key(name)


def flag_fields_set(fn):
    """bool fields of self that are written `true` somewhere in fn"""
    set_fields = set()
    for b in fn.blocks:
        for st in b["s"]:
            if st[0] == "=" and len(st[1]) >= 2 and st[1][0] == 1 and ":" in str(st[1][-1]) and st[2][0] == "use":
                o = fn.origin(st[2][1]) if st[2][1][0] != "k" else ("const", st[2][1][1])
                if o[0] == "const" and o[1].get("ty") == "bool" and o[1].get("v") == "1":
                    set_fields.add(str(st[1][-1]))
    return set_fields


def repolls_source(fn, poll_re, set_fields=None):
    """R15.12 on one `next()`: (polls found, every poll is dominated by a test of a bool field of self that is set on a path
    after a poll).  With `set_fields` given (the flags another method of the same type sets): the same test for that method's
    calls, e.g. the source's size hint asked by `size_hint()`."""
    polls = [bi for bi, t in fn.calls() if call_name_matches(t, poll_re)]
    if not polls:
        return False, False
    if set_fields is None:
        set_fields = flag_fields_set(fn)
    guarded = True
    for pb in polls:
        ok = False
        for cand in fn.dominators().get(pb, ()):
            t = fn.blocks[cand]["t"]
            if t["t"] == "switch" and t.get("ty") == "bool" and t["on"][0] != "k":
                # the tested value derives from one of those fields (possibly negated / copied into a local first)
                seen, stack = set(), [t["on"]]
                while stack:
                    op = stack.pop()
                    if op[0] == "k" or tuple(op[1]) in seen:
                        continue
                    seen.add(tuple(op[1]))
                    if op[1][0] == 1 and any(str(p_) in set_fields for p_ in op[1][1:]):
                        ok = True
                    for b2, si, rv in fn.defs().get(op[1][0], []):
                        if rv[0] == "use":
                            stack.append(rv[1])
                        elif rv[0] == "un":
                            stack.append(rv[2])
                        elif rv[0] == "bin":
                            stack.extend([rv[2], rv[3]])
        guarded = guarded and ok
    return True, guarded


def source_iterator_rule(ck, facts):
    """R15.12: the iterator faces of the source adapters stop polling a source that has failed or ended (processing stops at the
    first error): `next()` polls the source only under a flag that it sets once the source reported an error or its end."""
    import core
    ck.control("R15.12", "Polling::pos_repoll", repolls_source(core.fixture_fn("Polling::<I>::pos_repoll"), r"iter::Iterator>?::next$") == (True, False))
    ck.control("R15.12", "Polling::neg_fused", repolls_source(core.fixture_fn("Polling::<I>::neg_fused"), r"iter::Iterator>?::next$") != (True, True), expect=False)
    n = 0
    for f in sorted(facts.fns.values(), key=lambda x: x.id):
        if f.crate == "sophia_api" and re.search(r"source::(map|filter_map)::\w+SourceIterator<.*> as std::iter::Iterator>::next$", f.name):
            n += 1
            found, ok = repolls_source(f, r"Source>?::(try_)?for_some_item$")
            if not found:
                ck.bad("R15.12", "R15.12@%s#anchor" % panics_key(f.name), "anchor-missing: the poll of the wrapped source", f.loc)
            elif ok:
                ck.ok("R15.12", "%s polls its source only while a done flag is clear" % f.name.split(" as ")[0].lstrip("<"))
            else:
                ck.bad("R15.12", "R15.12@%s#repolls-failed-source" % panics_key(f.name), "%s polls the wrapped source on every call with an empty "
                       "buffer, whatever the source answered before: after an error the items after the fault are delivered (N-Triples), or "
                       "the same Err is yielded for ever (Turtle: count() never returns)" % f.name, f.loc)
    ck.floor("R15.12", "iterator faces of source adapters", n, 2)
    # R15.11 (continued): once the flag is set the source is never polled again, so its hint must not be announced any more
    ck.control("R15.11", "Polling::pos_stale_hint", repolls_source(core.fixture_fn("Polling::<I>::pos_stale_hint"), r"Iterator>?::size_hint$",
                                                                   {"f1:done"}) == (True, False))
    ck.control("R15.11", "Polling::neg_hint_while_live", repolls_source(core.fixture_fn("Polling::<I>::neg_hint_while_live"), r"Iterator>?::size_hint$",
                                                                       {"f1:done"}) != (True, True), expect=False)
    m = 0
    for f in sorted(facts.fns.values(), key=lambda x: x.id):
        mm = re.search(r"^(<?source::(map|filter_map)::\w+SourceIterator<.*> as std::iter::Iterator>::)size_hint$", f.name)
        if f.crate == "sophia_api" and mm:
            nxt = [g for g in facts.fns.values() if g.name == mm.group(1) + "next"]
            fields = flag_fields_set(nxt[0]) if len(nxt) == 1 else set()
            if not fields:
                continue            # no done flag: R15.12 reports that
            m += 1
            found, ok = repolls_source(f, r"Source>?::size_hint_\w+$", fields)
            if not found or ok:
                ck.ok("R15.11", "%s does not announce the items of a source it will not poll again" % f.name.split(" as ")[0].lstrip("<"))
            else:
                ck.bad("R15.11", "R15.11@%s#stale-hint-after-done" % panics_key(f.name), "%s adds the hint of the wrapped source even after the flag that "
                       "stops the polling is set: after yielding the Err of item k it still announces the n-k-1 items behind the fault "
                       "(a lower bound above what is left breaks the size_hint contract), then returns None for ever" % f.name, f.loc)
    ck.floor("R15.11", "size hints of adapters with a done flag", m, 2)


def unfinished_returns(fn, call_term, finish_re, source_re=r"Source", sink_re=r"Sink"):
    """Return blocks reachable from the continuation of `call_term` (which returns Result<(), StreamError>) without passing a call
    matching finish_re, on a path along which the result can still be a *source* error.  The walk tracks what the result can be
    ({Ok, Source, Sink}) through the decisions made on it: `match` / `if let` on the Result and on its Err payload, and `?`
    (Try::branch: Continue = Ok, Break = Err).  A return reached with only Ok / Sink left is not reported: after a sink error the
    writer is failing, nothing more can be written; `formatted?` after `if let Err(SourceError(e)) = formatted { finish; return }`
    can only break with a sink error."""
    if len(call_term["dest"]) != 1 or call_term.get("to") is None:
        return [-1]
    res = set(forward_aliases(fn, call_term["dest"][0], limit=20))
    fin = {bi for bi, t in fn.calls() if call_name_matches(t, finish_re)}
    branches = {}      # dest local of Try::branch(result) -> True
    for bi, t in fn.calls():
        if call_name_matches(t, r"ops::Try::branch$|try_trait::Try::branch$") and t["args"] and t["args"][0][0] != "k" \
                and t["args"][0][1][0] in res and len(t["args"][0][1]) == 1 and len(t["dest"]) == 1:
            branches[t["dest"][0]] = True
    ALL = frozenset(("Ok", "Source", "Sink"))

    def classify(name):
        if name in ("Ok", "Continue"):
            return {"Ok"}
        if name in ("Err", "Break"):
            return {"Source", "Sink"}
        if re.search(source_re, name):
            return {"Source"}
        if re.search(sink_re, name):
            return {"Sink"}
        return set(ALL)
    seen, todo, bad = set(), [(call_term["to"], ALL)], set()
    rets = set(fn.ret_blocks())
    while todo:
        b, poss = todo.pop()
        if (b, poss) in seen or b in fin or not poss:
            continue
        seen.add((b, poss))
        if b in rets and "Source" in poss:
            bad.add(b)
        t = fn.blocks[b]["t"]
        refined = None
        if t["t"] == "switch" and t["on"][0] != "k":
            o = fn.origin(t["on"])
            names = (t.get("variants") or {}).get("names") or {}
            if o[0] == "rvalue" and o[1][0] == "discr" and o[1][1] and names:
                pl = o[1][1]
                on_result = pl[0] in res and (len(pl) == 1 or (len(pl) == 3 and str(pl[1]).endswith(":Err")))
                on_branch = pl[0] in branches and len(pl) == 1
                if on_result or on_branch:
                    scope = {"Source", "Sink"} if len(pl) == 3 else set(ALL)
                    refined = []
                    listed = set()
                    for v, tb in t["vals"]:
                        cls = classify(names.get(v, "?")) & scope
                        listed |= cls
                        refined.append((tb, frozenset(poss & (cls | (ALL - scope if len(pl) == 3 and False else set())))))
                    refined.append((t["else"], frozenset(poss & (scope - listed))))
        if refined is not None:
            todo.extend(refined)
        else:
            for nb in fn.succs(b):
                todo.append((nb, poss))
    return sorted(bad)


def formatter_finished_rule(ck, facts):
    """R15.14: the streaming serializers built on rio's formatters write the end of the last statement (and of the open graph / element)
    only in `finish()`: it must be called on every path that follows `rio_format_triples|quads`, including the one that returns the
    source's error, or the k items consumed before the fault are left as an unterminated document.  Only a sink error (the writer
    itself is failing) may return without it."""
    import core
    for name, expect in (("pos_unfinished_on_source_error", True), ("neg_finished_on_source_error", False), ("neg_finished_before_deciding", False),
                         ("neg_finished_then_question_mark", False), ("pos_question_mark_before_source_test", True)):
        f = core.fixture_fn(name)
        st = [t for _, t in f.calls() if call_name_matches(t, r"feed_formatter$")]
        ck.control("R15.14", name, len(st) == 1 and unfinished_returns(f, st[0], r"FixFormatter::finish$"), expect)
    n = 0
    for f in sorted(facts.fns.values(), key=lambda x: x.id):
        if f.crate not in ("sophia_turtle", "sophia_xml") or f.kind == "Closure":
            continue
        for bi, t in f.calls():
            if not call_name_matches(t, r"serializer::rio_format_(triples|quads)$"):
                continue
            n += 1
            short = f.name.split(" as ")[0].lstrip("<")
            fins = [b for b, tt in f.calls() if call_name_matches(tt, r"Formatter>?::finish$|Formatter::<W>::finish$")]
            if not fins:
                ck.bad("R15.14", "R15.14@%s#anchor" % panics_key(short), "anchor-missing: no finish() of the rio formatter in %s" % short, f.loc)
                continue
            rets = unfinished_returns(f, t, r"Formatter>?::finish$|Formatter::<W>::finish$")
            if rets:
                ck.bad("R15.14", "R15.14@%s#unfinished-after-source-error" % panics_key(short), "%s returns the error of rio_format_* without calling "
                       "the formatter's finish(): when the source fails at item k >= 1 the output stops inside the last statement "
                       "(`<s0> <p0> <o0>` with no ` .`, an open `<g> {`, unclosed rdf:Description / rdf:RDF), so the items consumed before the "
                       "fault cannot be read back" % short, "%s:%s" % (t["file"], t["line"]))
            else:
                ck.ok("R15.14", "%s finishes the rio formatter on every path but a sink error" % short)
    ck.floor("R15.14", "streaming serializers built on rio formatters", n, 3)


def owned_writer_flush_rule(ck, facts):
    """R15.13: a serializer that owns its writer (taken by value, no accessor) flushes it before it reports success: with a BufWriter
    the last bytes would otherwise be written by its drop, where an I/O error is swallowed."""
    specs = [("sophia_turtle", r"NtSerializer<W> as sophia_api::prelude::TripleSerializer>::serialize_triples$"),
             ("sophia_turtle", r"NqSerializer<W> as sophia_api::prelude::QuadSerializer>::serialize_quads$"),
             ("sophia_jsonld", r"JsonLdSerializer<W, L> as sophia_api::prelude::QuadSerializer>::serialize_quads$")]
    n = 0
    for crate, pat in specs:
        for f in [x for x in facts.fns.values() if x.crate == crate and re.search(pat, x.name) and x.kind != "Closure"]:
            n += 1
            units = facts.with_closures(f)
            flushes = [bi for bi, t in f.calls() if call_name_matches(t, r"io::Write>?::flush$")]
            in_closure = any(call_name_matches(t, r"io::Write>?::flush$") for u in units[1:] for _, t in u.calls())
            oks = [bi for bi, si, dest, ops in blocks_with_agg(f, "core::result::Result", "Ok") if dest == [0]]
            short = f.name.split(" as ")[0].lstrip("<")
            if oks and all(any(f.dominates(fb, o) for fb in flushes) for o in oks) or (in_closure and not flushes):
                ck.ok("R15.13", "%s flushes the writer it owns before reporting success" % short)
            else:
                ck.bad("R15.13", "R15.13@%s#owned-writer-not-flushed" % panics_key(short), "%s owns its writer (taken by value, no accessor) and returns Ok "
                       "without flushing it: with the BufWriter its documentation recommends, a StorageFull at the end of the output - or "
                       "anywhere in an output below the buffer size - is never reported" % short, f.loc)
    ck.floor("R15.13", "serializers owning their writer", n, 3)


def run(ck, facts, tier):
    facts.require_crates(["sophia_api", "sophia_rio", "sophia_turtle", "sophia_inmem", "sophia_xml", "sophia_jsonld"])
    import core
    for name, expect in (("pos_drop_ok", True), ("pos_drop_unused", True), ("pos_drop_is_ok", True),
                         ("pos_drop_on_early_return", True), ("neg_propagate", False), ("neg_match_err", False)):
        hits = [how for _, _, how in errflow.dropped_results(core.fixture_fn(name))]
        ck.control("R15.1", name, bool(hits), expect, note="; ".join(hits)[:120])
    for name, expect in (("pos_drop_unused_then_ok", True), ("neg_drop_on_error_path", False)):
        f = core.fixture_fn(name)
        hits = [how for _, t, how in errflow.dropped_results(f) if not (how.startswith("never used") and errflow.only_error_returns_follow(f, t["to"]))]
        ck.control("R15.1", name, bool(hits), expect, note="; ".join(hits)[:120])
    fns = sorted((f for f in facts.fns.values() if in_scope(f)), key=lambda f: f.id)
    ck.floor("R15.1", "functions in the stream/serializer scope", len(fns), 400)
    results = 0
    for fn in fns:
        for bi, t in fn.calls():
            if len(t["dest"]) == 1 and errflow.err_type(fn.locals[t["dest"][0]]["ty"]) not in (None, "std::convert::Infallible", "!"):
                results += 1
        for bi, t, how in errflow.dropped_results(fn):
            callee = t["f"].get("name", "?")
            if re.search(VALUE_ATTEMPTS, callee):
                ck.ok("R15.1", "%s: %s is a value-conversion attempt (its failure selects a fallback), not a stream error" % (fn.name, callee), nontrivial=False)
                continue
            if how.startswith("never used") and errflow.only_error_returns_follow(fn, t["to"]):
                ck.ok("R15.1", "%s: the Result of %s is dropped on a path that can only return Err (clean-up after the first error, which is the "
                               "one reported)" % (fn.name, callee), nontrivial=False)
                continue
            ck.bad("R15.1", "R15.1@%s#%s" % (fn.name, callee.split("::")[-1]),
                   "the Result of %s is %s" % (callee, how), "%s:%s" % (t["file"], t["line"]))
    ck.ok("R15.1", "Result-producing calls analysed", "%d calls in %d functions" % (results, len(fns)), calls=results)
    ck.floor("R15.1", "Result-producing calls", results, 150)
    impls = [f for f in facts.fns.values() if re.search(r"Source>?::try_for_some_item$", f.name) and f.impl]
    ck.floor("R15.2", "Source::try_for_some_item impls", len(impls), 12)
    n = callback_once_rule(ck, facts, fns)
    ck.floor("R15.2", "adapter closures invoking the callback", n, 8)
    n = blame_rule(ck, facts, fns)
    ck.floor("R15.3", "stream-error constructions", n, 8)
    rio_variant_rule(ck, facts)
    each_item_rule(ck, facts)
    n = swap_parity_rule(ck, facts, fns)
    ck.floor("R15.6", "functions swapping a buffer out of self", n, 2)
    n = fifo_rule(ck, facts, fns)
    ck.floor("R15.7", "functions that fill and drain a buffer of items", n, 2)
    for name, expect in (("pos_partial_write", True), ("neg_write_all", False), ("neg_write_loop", False)):
        ck.control("R15.8", name, bool(partial_write_hits(core.fixture_fn(name))), expect)
    n = partial_write_rule(ck, facts, fns)
    ck.floor("R15.8", "write_all / write_fmt calls in the serializers", n, 20)
    fx = core.fixture_facts()
    pr = core.Probe()
    fifo_rule(pr, fx, [core.fixture_fn("Buffered::pos_lifo_next"), core.fixture_fn("Buffered::neg_fifo_next")])
    ck.control("R15.7", "Buffered::pos_lifo_next (Vec::push / Vec::pop)", pr.fired(r"pos_lifo_next#lifo-buffer$"))
    ck.control("R15.7", "Buffered::neg_fifo_next (push_back / pop_front)", pr.fired(r"neg_fifo_next"), expect=False)
    sink_error_rules(ck, facts, fns)
    source_iterator_rule(ck, facts)
    owned_writer_flush_rule(ck, facts)
    formatter_finished_rule(ck, facts)
    n = writer_rule(ck, facts)
    ck.floor("R15.5", "line-oriented serializer closures", n, 2)
    ck.assumptions = ["position bookkeeping inside rio_turtle/rio_xml/json-ld is not decided",
                      "a Result handed to another function or stored is considered delivered"]
    ck.trusted = ["rustc MIR (types of call destinations, resolved callees)"]
    import witness
    witness.apply(ck, "C15")
