"""C18 — RDF/XML serialisation: the workspace's glue around rio_xml (pairing, who-may-write, conversion table)."""
import re
from core import CheckError
from mirutil import (call_name_matches, provenance, bool_switch, enumerate_paths, comes_from_call, TRANSPARENT)

LEVEL = "other"
EXPLANATION = (
    "Decides the glue clauses of C18 (escaping, whitespace and QName splitting happen inside rio_xml, a trusted base). "
    "(R18.1) in RdfXmlSerializer::serialize_triples every success path is formatter-constructor -> rio_format_triples -> "
    "finish(), in that order, each exactly once (errors of all three are propagated: rule R15.1 of C15 covers this file). "
    "(R18.2) the serializer never writes to the underlying writer itself, hands rio_format_triples the rio formatter "
    "itself (not a wrapper) and the caller's source unchanged, and `indentation` only selects the constructor / is its "
    "argument. (R18.3) convert_triple's table, extracted from all paths: subject IRI|bnode|quoted, predicate IRI, object "
    "IRI|bnode|quoted|literal with xsd:string -> Simple (tested by `xsd::string == datatype` itself), other datatype -> "
    "Typed with that datatype, tagged -> LanguageTaggedString; every other shape yields Empty (the triple is skipped). "
    "(R18.4) on the parse side the accessor helpers of rio/src/model.rs hand the back-end's strings over unchanged (conversions only; no trim / replace / case folding). NOT decided: the round trip itself (rio_xml's writer and reader).")

RIO_TOKENS = {"rio_api::model::NamedNode": "NamedNode", "rio_api::model::BlankNode": "BlankNode",
              "rio_api::model::Literal": "Literal", "rio_api::model::Triple": "RioTriple"}


def serialize_rule(ck, facts):
    fns = facts.find_fns(crate="sophia_xml", name_re=r"RdfXmlSerializer<W> as .*TripleSerializer>::serialize_triples$")
    if len(fns) != 1:
        ck.bad("R18.1", "R18.1@serialize_triples#anchor", "anchor-missing: RdfXmlSerializer::serialize_triples (%d)" % len(fns))
        return
    fn = fns[0]

    def tok(t):
        if call_name_matches(t, r"rio_xml::RdfXmlFormatter::<W>::(new|with_indentation)$"):
            return "ctor:" + t["f"]["name"].split("::")[-1]
        if call_name_matches(t, r"serializer::rio_format_triples$"):
            return "format"
        if call_name_matches(t, r"RdfXmlFormatter::<W>::finish$"):
            return "finish"
        if call_name_matches(t, r"io::Write::\w+$"):
            return "WRITE"
        return None
    try:
        paths = enumerate_paths(fn, 0, tok)
    except CheckError as e:
        ck.bad("R18.1", "R18.1@serialize_triples#shape", str(e), fn.loc)
        return
    shapes = {tuple(re.sub(r"^ctor:.*", "ctor", x) for x in toks) for _, toks in paths}
    if shapes == {("ctor", "format", "finish")}:
        ck.ok("R18.1", "serialize_triples: constructor -> rio_format_triples -> finish on all %d success paths" % len(paths))
    else:
        ck.bad("R18.1", "R18.1@serialize_triples#pairing", "success paths of serialize_triples are %s; every one must be "
               "constructor, rio_format_triples, finish() (a document that is not finished is not well-formed XML)" % sorted(shapes), fn.loc)
    ctors = {x for _, toks in paths for x in toks if x.startswith("ctor:")}
    if ctors != {"ctor:new", "ctor:with_indentation"}:
        ck.bad("R18.2", "R18.2@serialize_triples#constructors", "expected both RdfXmlFormatter::new and ::with_indentation, found %s" % sorted(ctors), fn.loc)
    # R18.2
    for bi, t in fn.calls():
        if call_name_matches(t, r"io::Write::\w+$"):
            ck.bad("R18.2", "R18.2@serialize_triples#direct-write", "the serializer writes to the underlying writer itself (%s)" % t["f"]["name"],
                   "%s:%s" % (t["file"], t["line"]))
        if call_name_matches(t, r"serializer::rio_format_triples$"):
            tf = (t["f"].get("substs") or ["?"])[0]
            if not re.match(r"^rio_xml::RdfXmlFormatter<", tf):
                ck.bad("R18.2", "R18.2@serialize_triples#wrapped-formatter", "rio_format_triples is given `%s`, not the rio formatter itself "
                       "(errors or calls can be intercepted between sophia and rio)" % tf, "%s:%s" % (t["file"], t["line"]))
            else:
                ck.ok("R18.2", "rio_format_triples is driven with rio_xml's formatter itself")
            src = provenance(fn, t["args"][1], transparent=())[-1]
            if src[0] == "param" and src[1] == 2 and not src[2]:
                ck.ok("R18.2", "the caller's source is handed to rio_format_triples unchanged")
            else:
                ck.bad("R18.2", "R18.2@serialize_triples#source-adapted", "the triple source is transformed before it reaches rio_format_triples "
                       "(triples can be dropped or altered outside convert_triple)", "%s:%s" % (t["file"], t["line"]))
        if call_name_matches(t, r"RdfXmlFormatter::<W>::with_indentation$"):
            a = provenance(fn, t["args"][1], transparent=())[-1]
            names = [p for p in (a[2] if a[0] == "param" else [])]
            if a[0] == "param" and a[1] == 1 and any(p.endswith(":indentation") for p in names):
                ck.ok("R18.2", "with_indentation receives config.indentation")
            else:
                ck.bad("R18.2", "R18.2@serialize_triples#indentation", "with_indentation does not receive config.indentation", fn.loc)


def convert_rule(ck, facts):
    fns = facts.find_fns(crate="sophia_rio", name_re=r"^serializer::convert_triple$")
    if len(fns) != 1:
        ck.bad("R18.3", "R18.3@convert_triple#anchor", "anchor-missing: rio::serializer::convert_triple (%d)" % len(fns))
        return
    fn = fns[0]

    def on_call(t):
        if call_name_matches(t, r"^serializer::convert_triple$"):
            return "rec"
        if call_name_matches(t, r"serializer::Stack::<T>::head2$"):
            return None
        return None

    def on_stmt(st):
        if st[0] == "=" and st[2][0] == "agg" and st[2][1].get("k") == "adt":
            d = st[2][1]["def"]
            if d in RIO_TOKENS:
                if d.endswith("Literal"):
                    return "Literal:" + st[2][1]["vname"]
                return RIO_TOKENS[d]
            if d.endswith("serializer::Stack") and st[1] == [0]:
                return "ret:" + st[2][1]["vname"]
        return None
    try:
        paths = enumerate_paths(fn, 0, on_call, on_stmt=on_stmt, max_paths=4000)
    except CheckError as e:
        ck.bad("R18.3", "R18.3@convert_triple#shape", str(e), fn.loc)
        return
    obj = {}
    subj = {}
    pred = {}
    for conds, toks in paths:
        role = {}
        for d, o, s_ in conds:
            m = re.search(r"Triple::(s|p|o)$", d)
            if m and isinstance(o, str):
                role[m.group(1)] = o
        eqs = [(d, o) for d, o, s_ in conds if re.search(r"PartialEq(<.*>)?(>)?::eq$", d)]
        ended_empty = "ret:Empty" in toks
        if "s" in role:
            subj.setdefault(role["s"], set()).add("Empty" if ended_empty and "p" not in role else "ok")
        if "p" in role:
            pred.setdefault(role["p"], set()).add("Empty" if ended_empty and "o" not in role else "ok")
        if "o" in role:
            lits = [t for t in toks if t.startswith("Literal:")]
            key = role["o"] + (":eq=%s" % eqs[-1][1] if role["o"] == "LiteralDatatype" and eqs else "")
            obj.setdefault(key, set()).add("Empty" if ended_empty else (lits[0] if lits else "node"))
    want_subj = {"Iri": {"ok"}, "BlankNode": {"ok"}, "Triple": {"ok", "Empty"}}
    for k, v in sorted(subj.items()):
        ks = k.split("|")
        for kk in ks:
            if kk in want_subj:
                if not v <= want_subj[kk]:
                    ck.bad("R18.3", "R18.3@convert_triple#subject:%s" % kk, "subject %s -> %s" % (kk, sorted(v)), fn.loc)
                else:
                    ck.ok("R18.3", "subject %s accepted" % kk)
            elif v != {"Empty"}:
                ck.bad("R18.3", "R18.3@convert_triple#subject:%s" % kk, "a %s subject is not skipped (RDF/XML cannot express it)" % kk, fn.loc)
            else:
                ck.ok("R18.3", "subject %s skipped" % kk)
    for k, v in sorted(pred.items()):
        for kk in k.split("|"):
            if kk == "Iri":
                if v == {"ok"}:
                    ck.ok("R18.3", "predicate Iri accepted")
                else:
                    ck.bad("R18.3", "R18.3@convert_triple#predicate:Iri", "IRI predicate -> %s" % sorted(v), fn.loc)
            elif v != {"Empty"}:
                ck.bad("R18.3", "R18.3@convert_triple#predicate:%s" % kk, "a %s predicate is not skipped" % kk, fn.loc)
    want_obj = {"Iri": {"node"}, "BlankNode": {"node"}, "LiteralDatatype:eq=True": {"Literal:Simple"},
                "LiteralDatatype:eq=False": {"Literal:Typed"}, "LiteralLanguage": {"Literal:LanguageTaggedString"}}
    seen = set()
    for k, v in sorted(obj.items()):
        for kk in ([k] if k.startswith("LiteralDatatype") else k.split("|")):
            seen.add(kk)
            if kk in want_obj:
                if v == want_obj[kk]:
                    ck.ok("R18.3", "object %s -> %s" % (kk, sorted(v)[0]))
                else:
                    ck.bad("R18.3", "R18.3@convert_triple#object:%s" % kk, "object %s is converted to %s, expected %s" % (kk, sorted(v), sorted(want_obj[kk])), fn.loc)
            elif kk == "Triple":
                if v <= {"node", "Empty"}:
                    ck.ok("R18.3", "object Triple -> nested / skipped")
                else:
                    ck.bad("R18.3", "R18.3@convert_triple#object:Triple", "quoted object -> %s" % sorted(v), fn.loc)
            elif kk == "LiteralDatatype":
                ck.bad("R18.3", "R18.3@convert_triple#object:datatype-test", "a typed literal is converted without the `xsd::string == datatype` test "
                       "(the decision Simple vs Typed must be made by that equality itself)", fn.loc)
            elif v != {"Empty"}:
                ck.bad("R18.3", "R18.3@convert_triple#object:%s" % kk, "a %s object is not skipped" % kk, fn.loc)
            else:
                ck.ok("R18.3", "object %s skipped" % kk)
    for need in want_obj:
        if need not in seen:
            ck.bad("R18.3", "R18.3@convert_triple#object-missing:%s" % need, "no conversion path for object shape %s" % need, fn.loc)
    # the equality deciding Simple vs Typed: xsd::string compared with the literal's own datatype
    eq_ok = False
    for bi in range(len(fn.blocks)):
        bs = bool_switch(fn, bi)
        if bs and bs[0][0] == "call" and call_name_matches(bs[0][1], r"NsTerm<'_> as std::cmp::PartialEq<T>>::eq$"):
            statics = [provenance(fn, a)[-1] for a in bs[0][1]["args"]]
            if any(o[0] == "const" and o[1].get("def") == "sophia_api::ns::xsd::string" for o in statics):
                eq_ok = True
    if not eq_ok:
        ck.bad("R18.3", "R18.3@convert_triple#xsd-string-test", "the Simple/Typed decision is not `xsd::string == datatype` (NsTerm equality with "
               "the xsd:string constant)", fn.loc)
    ck.floor("R18.3", "conversion paths of convert_triple", len(paths), 20)


def identity_adapter_rule(ck, facts):
    """R18.4: on the parse side the adapter hands the back-end's strings over *unchanged*: every `MownStr` / wrapper built by
    the accessor helpers of rio/src/model.rs (lexical_form, iri, bnode_id, datatype, language_tag, variable) derives from a
    field of the rio term through conversions only (`into`, `from`, `new_unchecked`, `as_ref`, deref) - no `trim`, `replace`,
    case folding or re-formatting, which would make the parsed dataset differ from what was written."""
    from mirutil import TRANSPARENT
    helpers = [f for f in facts.fns.values() if f.crate == "sophia_rio" and f.kind == "Fn" and re.search(r"rio/src/model\.rs$", f.file)
               and re.search(r"^model::(lexical_form|iri|bnode_id|datatype|language_tag|variable)$", f.name)]
    n = 0
    for fn in sorted(helpers, key=lambda f: f.name):
        ok_calls = r"convert::Into(<.*>)?>?::into$|convert::From(<.*>)?>?::from$|::new_unchecked$|::new$|convert::AsRef(<.*>)?>?::as_ref$|" \
                   r"ops::Deref>?::deref$|borrow::Borrow(<.*>)?>?::borrow$|::is_ok$|::iriref$|::is_match$|core::panicking::|fmt::|option::Option"
        bad = []
        for bi, t in fn.calls():
            nm = t["f"].get("name") or ""
            if t["to"] is None or re.search(ok_calls, nm) or "debug_assert" in " ".join(t.get("exp") or []) or "assert" in " ".join(t.get("exp") or []):
                continue
            # any other call whose argument is the back-end's string and whose result reaches the return value
            bad.append((nm, "%s:%s" % (t["file"], t["line"])))
        n += 1
        if bad:
            ck.bad("R18.4", "R18.4@%s#transforms:%s" % (fn.name, bad[0][0].split("::")[-1]), "%s passes the back-end's string through %s: the adapter must "
                   "hand tokens over unchanged (a literal's lexical form, whitespace included, is part of the term)" % (fn.name, bad[0][0]), bad[0][1])
        else:
            ck.ok("R18.4", "%s: the back-end's string is handed over unchanged (conversions only)" % fn.name)
    ck.floor("R18.4", "accessor helpers of rio/src/model.rs", n, 5)


def run(ck, facts, tier):
    facts.require_crates(["sophia_xml", "sophia_rio"])
    identity_adapter_rule(ck, facts)
    serialize_rule(ck, facts)
    convert_rule(ck, facts)
    ck.assumptions = ["rio_xml's RdfXmlFormatter/RdfXmlParser implement RDF/XML (escaping, whitespace, QName split): not decided",
                      "error propagation in these files is decided by C15's R15.1"]
    ck.trusted = ["rustc MIR"]
