"""C01 — in-memory stores behave like a set of quads: index/scan consistency."""
import re
import roles
from core import CheckError
from mirutil import (call_name_matches, provenance, bool_switch, edge_dominates, enumerate_paths, comes_from_call,
                     blocks_with_agg, root_local, forward_aliases, try_success_edge, TRANSPARENT)

LEVEL = "other"
EXPLANATION = (
    "Decides the index/scan-consistency clauses of C01 for the four generic in-memory stores (all index widths share "
    "the generic code) with a role-propagation abstract interpretation of their MIR (roles g/s/p/o attached to terms, "
    "indexes and matchers; ZERO/MAX; arrays; iterators; closures — no values, no path conditions). (R1.1) every ordered "
    "set of a store is written in insert and in remove with the same permutation of roles, the secondary writes only on "
    "the true edge of the primary write, whose result is the returned flag. (R1.2) every range scan is over the set whose "
    "key order starts with the roles the bounds fix, lower bound [fixed.., ZERO..], upper bound covering every key with "
    "that prefix; every role not fixed by the bounds is checked by *its own* matcher on *its own* position (filter closure "
    "or MatchingIterator argument order), and every returned iterator yields (g,[s,p,o]) / [s,p,o] in that order "
    "(re-ordering closures evaluated abstractly — this also discharges the unwrap_unchecked of the term slots). (R1.3) an "
    "unknown constant returns empty / Ok(false) without touching a set. (R1.4) a full term index reports it before changing "
    "anything (no path from a mutation to Err in ensure_index), and all ensure_index calls precede the first set "
    "mutation. (R1.5) the five matching iterators: field k built from (matcher k, first[k]); update(k) gets element k, its "
    "optional guard compares element k with field k's cached index, a field built with `uninit` is updated "
    "unconditionally, Some(..) is returned only under every field's flag. (R1.6) every override of constant() has an "
    "audited shape (cardinality-1 guard, pure delegation, or Bound variant whose matches arm is Term::eq). (R1.7) "
    "insert_all/remove_all count only `true` results; remove_matching/retain_matching collect before removing. "
    "(R1.8) the ordered index sets are borrowed mutably only in insert/remove of the four stores (who-may-write). "
    "NOT decided: correctness of BTreeSet/HashMap/Term::eq themselves, agreement of results between implementations.")

STORES = [
    ("GenericFastDataset", "dataset", 4), ("GenericLightDataset", "dataset", 4),
    ("GenericFastGraph", "graph", 3), ("GenericLightGraph", "graph", 3),
]
FULL = {4: ("g", "s", "p", "o"), 3: ("s", "p", "o")}


def fmt(v):
    if v is None:
        return "?"
    if v == "EMPTY":
        return "EMPTY"
    if v[0] in ("r", "c"):
        return v[1]
    if v[0] == "tup":
        return "[" + ",".join(fmt(x) for x in v[1]) + "]"
    if v[0] == "iter":
        return "iter<" + fmt(v[1]) + ">"
    return v[0]


def store_fn(facts, store, trait_re, method):
    fns = [f for f in facts.fns.values() if f.crate == "sophia_inmem" and re.search(r"%s<TI> as .*%s>::%s$" % (store, trait_re, method), f.name)]
    return fns[0] if len(fns) == 1 else None


def params_for(n):
    p = {2: ("r", "s"), 3: ("r", "p"), 4: ("r", "o")}
    if n == 4:
        p[5] = ("r", "g")
    return p


def dedup(events):
    seen = set()
    out = []
    for e in events:
        k = (e[0], e[1].id, e[2])
        if k in seen:
            continue
        seen.add(k)
        out.append(e)
    return out


def mutation_rule(ck, facts, store, kind, n):
    """R1.1 + R1.4: returns perms {field: roles}"""
    adt = facts.adts.get("sophia_inmem::%s::%s" % (kind, store))
    if adt is None:
        ck.bad("R1.1", "R1.1@%s#anchor" % store, "anchor-missing: struct %s" % store)
        return None
    set_fields = [f["name"] for f in adt["variants"][0]["fields"] if f["ty"].startswith("std::collections::BTreeSet<")]
    perms = {}
    for m in ("insert", "remove"):
        fn = store_fn(facts, store, "Mutable(Dataset|Graph)", m)
        if fn is None:
            ck.bad("R1.1", "R1.1@%s::%s#anchor" % (store, m), "anchor-missing: %s::%s" % (store, m))
            return None
        a = roles.Analysis(facts)
        a.run(fn, params_for(n))
        evs = [e for e in dedup(a.events) if e[0] == m]
        got = {}
        for e in evs:
            fld, val = e[3]["field"], e[3]["value"]
            rolesv = tuple(x[1] if x and x[0] == "r" else "?" for x in (val[1] if val and val[0] == "tup" else []))
            key = "R1.1@%s::%s#%s" % (store, m, fld)
            if sorted(rolesv) != sorted(FULL[n]):
                ck.bad("R1.1", key + "#not-a-permutation", "%s.%s.%s([%s]): the key is not a permutation of the quad's roles" % (
                    store, fld, m, ",".join(rolesv)), "%s:%s" % (e[3]["term"]["file"], e[3]["term"]["line"]))
                continue
            if fld in got and got[fld] != rolesv:
                ck.bad("R1.1", key + "#two-orders", "%s.%s is written with two different key orders in %s" % (store, fld, m), fn.loc)
            got[fld] = rolesv
        missing = sorted(set(set_fields) - set(got))
        if missing:
            ck.bad("R1.1", "R1.1@%s::%s#index-not-updated:%s" % (store, m, ",".join(missing)),
                   "%s::%s does not write the ordered set(s) %s: the indexes drift apart" % (store, m, missing), fn.loc)
        if m == "insert":
            perms = got
        else:
            for fld, r in got.items():
                if perms.get(fld) and perms[fld] != r:
                    ck.bad("R1.1", "R1.1@%s::remove#%s#order-mismatch" % (store, fld), "%s.%s keys are inserted as [%s] but removed as [%s]" % (
                        store, fld, ",".join(perms[fld]), ",".join(r)), fn.loc)
        # primary = first set field; secondary writes under the true edge of the primary write; flag returned = primary's
        prim = set_fields[0]
        pe = [e for e in evs if e[3]["field"] == prim]
        if len(pe) == 1:
            pt = pe[0][3]["term"]
            pbi = pe[0][2]
            sw = None
            for cand in sorted(fn.reachable(pt["to"])):
                bs = bool_switch(fn, cand)
                if bs and bs[0][0] == "call" and bs[0][1] is pt:
                    sw = (cand, bs[1])
                    break
            for e in evs:
                if e[3]["field"] == prim:
                    continue
                if sw is None or not edge_dominates(fn, sw, e[2]):
                    ck.bad("R1.1", "R1.1@%s::%s#%s#unguarded-secondary" % (store, m, e[3]["field"]),
                           "%s::%s writes %s on a path where the primary set %s did not change" % (store, m, e[3]["field"], prim), fn.loc)
            # returned flag
            ok = False
            oks = list(blocks_with_agg(fn, "core::result::Result", "Ok"))
            good = 0
            for bi2, si2, dest, ops in oks:
                o = fn.origin(ops[0])
                if o[0] == "call" and o[1] is pt:
                    good += 1
                elif o[0] == "const" and o[1].get("ty") == "bool" and sw is not None:
                    val = o[1].get("v") == "1"
                    bsw = bool_switch(fn, sw[0])
                    edge = (sw[0], bsw[1] if val else bsw[2])
                    if edge_dominates(fn, edge, bi2):
                        good += 1
                    elif not val and bi2 not in fn.reachable(pt["to"]):
                        good += 1          # Ok(false) returned before the primary write (unknown term in remove)
                elif not (bi2 in fn.reachable(pt["to"])):
                    good += 1
            ok = bool(oks) and good == len(oks)
            if ok:
                ck.ok("R1.1", "%s::%s: %d ordered set(s) %s; flag = %s.%s(..)" % (store, m, len(got), {k: "".join(v) for k, v in got.items()}, prim, m))
            else:
                ck.bad("R1.1", "R1.1@%s::%s#flag" % (store, m), "the flag returned by %s::%s is not the result of %s.%s(..)" % (store, m, prim, m), fn.loc)
        else:
            ck.bad("R1.1", "R1.1@%s::%s#primary" % (store, m), "expected exactly one write of the primary set %s (found %d)" % (prim, len(pe)), fn.loc)
        # R1.4: every fallible ensure_index precedes the first set mutation
        if m == "insert":
            firsts = [e[2] for e in evs]
            for bi, t in fn.calls():
                if call_name_matches(t, r"TermIndex>?::ensure_index$"):
                    if any(bi in fn.reachable(fb) and not fn.dominates(bi, fb) for fb in firsts):
                        ck.bad("R1.4", "R1.4@%s::insert#late-ensure-index" % store, "a term index (which can fail when the index is full) is "
                               "requested after a set has already been modified", "%s:%s" % (t["file"], t["line"]))
            ck.ok("R1.4", "%s::insert: all ensure_index calls precede the first set mutation" % store)
    return perms


def query_rule(ck, facts, store, kind, n, perms):
    method = "quads_matching" if n == 4 else "triples_matching"
    fn = store_fn(facts, store, "(Dataset|Graph)", method)
    if fn is None:
        ck.bad("R1.2", "R1.2@%s::%s#anchor" % (store, method), "anchor-missing")
        return
    a = roles.Analysis(facts, perms)
    env, rets = a.run(fn, params_for(n))
    evs = dedup(a.events)
    n_scan = 0
    for e in evs:
        p = e[3]
        loc = "%s:%s" % (p["term"]["file"], p["term"]["line"]) if p.get("term") else fn.loc
        if e[0] == "range":
            n_scan += 1
            perm = perms.get(p["field"])
            b = roles.range_bound(perm, p["value"]) if perm else None
            key = "R1.2@%s::%s#range:%s:%s" % (store, method, p["field"], fmt(p["value"]))
            if b is None:
                ck.bad("R1.2", key, "range scan of %s (key order %s) with bounds %s: the bounds do not delimit exactly the keys with a "
                       "fixed prefix (prefix roles must be the first roles of the key order, lower bound ZERO.., upper bound MAX at the "
                       "first free term position)" % (p["field"], "".join(perm or "?"), fmt(p["value"])), loc)
            else:
                ck.ok("R1.2", "%s: scan %s%s fixes %s" % (store, p["field"], fmt(p["value"]), sorted(b)))
        elif e[0] == "contains":
            perm = perms.get(p["field"])
            got = tuple(x[1] if x and x[0] == "r" else "?" for x in (p["value"][1] if p["value"] and p["value"][0] == "tup" else []))
            if perm and got == tuple(perm):
                ck.ok("R1.2", "%s: membership test on %s with key [%s]" % (store, p["field"], ",".join(got)))
            else:
                ck.bad("R1.2", "R1.2@%s::%s#contains:%s" % (store, method, p["field"]), "membership test on %s with key [%s], whose order is %s" % (
                    p["field"], ",".join(got), "".join(perm or "?")), loc)
        elif e[0] == "matches":
            mv, vv = p["matcher"], p["value"]
            if mv is None or vv is None or mv != vv:
                ck.bad("R1.2", "R1.2@%s::%s#matcher:%s-on-%s" % (store, method, fmt(mv), fmt(vv)),
                       "the %s matcher is applied to the %s position" % (fmt(mv), fmt(vv)), loc)
        elif e[0] == "boxed":
            item, ms, out = p["item"], p["matchers"], p["out"]
            nmatch = len(ms)
            key = "R1.2@%s::%s#%s:%s" % (store, method, p["kind"], fmt(item))
            if not item or item[0] != "tup":
                ck.bad("R1.2", key + "#item", "%sMatchingIterator over an iterator whose key order is not known" % p["kind"], loc)
                continue
            pos = item[1][len(item[1]) - nmatch:]
            if not all(mv is not None and mv == pv for mv, pv in zip(ms, pos)):
                ck.bad("R1.2", key + "#matchers", "%sMatchingIterator over keys %s is given matchers [%s]; position k must get the matcher "
                       "of its own role: expected [%s]" % (p["kind"], fmt(item), ",".join(fmt(x) for x in ms), ",".join(fmt(x) for x in pos)), loc)
            want = ("tup", [("r", x) for x in FULL[n]])
            if out != want:
                ck.bad("R1.2", key + "#reorder", "the re-ordering closure maps keys %s to %s instead of %s (a graph name in a term slot is also "
                       "undefined behaviour: unwrap_unchecked)" % (fmt(item), fmt(out), fmt(want)), loc)
            if all(mv is not None and mv == pv for mv, pv in zip(ms, pos)) and out == want:
                ck.ok("R1.2", "%s: %sMatchingIterator keys %s matchers [%s] -> %s" % (store, p["kind"], fmt(item), ",".join(fmt(x) for x in ms), fmt(out)))
    # returned iterators
    want_item = ("tup", [("r", "g"), ("tup", [("r", "s"), ("r", "p"), ("r", "o")])]) if n == 4 else ("tup", [("r", "s"), ("r", "p"), ("r", "o")])
    nret = 0
    for bi, v in rets:
        if not v or v[0] != "iter":
            ck.bad("R1.2", "R1.2@%s::%s#return-unknown" % (store, method), "a returned value has no recognised shape", fn.loc)
            continue
        if v[1] == "EMPTY":
            continue
        nret += 1
        if v[1] != want_item:
            ck.bad("R1.2", "R1.2@%s::%s#result-order:%s" % (store, method, fmt(v[1])), "a returned iterator yields %s instead of %s" % (fmt(v[1]), fmt(want_item)), fn.loc)
            continue
        if len(v) >= 4 and v[2] != "ONCE":
            covered = set(v[2]) | set(v[3])
            if covered != set(FULL[n]):
                ck.bad("R1.2", "R1.2@%s::%s#unchecked-role:%s" % (store, method, ",".join(sorted(set(FULL[n]) - covered))),
                       "a returned iterator fixes %s by its scan bounds and filters %s: role(s) %s are checked by neither (their matcher is "
                       "ignored)" % (sorted(v[2]), sorted(v[3]), sorted(set(FULL[n]) - covered)), fn.loc)
    ck.ok("R1.2", "%s::%s: %d scans, %d distinct returned iterator shapes, all yield %s with every role fixed or filtered" % (
        store, method, n_scan, nret, fmt(want_item)), nontrivial=True)
    return n_scan


def unknown_constant_rule(ck, facts, store, n):
    """R1.3"""
    for method, trait in (("quads_matching" if n == 4 else "triples_matching", "(Dataset|Graph)"), ("remove", "Mutable(Dataset|Graph)")):
        fn = store_fn(facts, store, trait, method)
        if fn is None:
            continue
        bodies = facts.with_closures(fn)
        cnt = 0
        for f in [fn]:
            for bi, t in f.calls():
                if not call_name_matches(t, r"TermIndex>?::get_index$|GraphNameIndex>?::get_graph_name_index$"):
                    continue
                cnt += 1
        # every Option switch whose None edge ... : use path enumeration is too heavy here; structural: blocks that are reachable
        # only through a None edge of a get_index-derived Option must not call BTreeSet methods
        lookups = 0
        for bi, b in enumerate(fn.blocks):
            t = b["t"]
            if t["t"] != "switch" or (t.get("variants") or {}).get("enum") != "core::option::Option":
                continue
            o = fn.origin(t["on"])
            if not (o[0] == "rvalue" and o[1][0] == "discr"):
                continue
            src = comes_from_call(fn, ["c", o[1][1]], r"TermIndex>?::get_index$|GraphNameIndex>?::get_graph_name_index$",
                                  transparent=TRANSPARENT + (r"Option::<T>::map$",))
            if not src:
                # Option<Option<i>> built by `constant().map(|t| get_index(..))`
                src = comes_from_call(fn, ["c", o[1][1]], r"Option::<T>::map$")
                if not src:
                    continue
                clo = fn.origin(src[1]["args"][1])
                cf = facts.fns.get(clo[1]["def"]) if clo[0] == "agg" and clo[1].get("k") == "closure" else None
                if not cf or not any(call_name_matches(t2, r"TermIndex>?::get_index$|GraphNameIndex>?::get_graph_name_index$") for _, t2 in cf.calls()):
                    continue
                # only the inner level (payload of Some) denotes "unknown term"
                path = o[1][1][1:]
                if not any(p.startswith("d1:Some") for p in path):
                    continue
            names = t["variants"]["names"]
            vals = dict((names.get(v, v), tb) for v, tb in t["vals"])
            none_t = vals.get("None", t["else"] if "None" not in vals else None)
            some_t = vals.get("Some", t["else"])
            if none_t is None or none_t == some_t:
                continue
            lookups += 1
            region = fn.reachable(none_t, avoid={some_t}) - fn.reachable(some_t, avoid={none_t})
            touched = [tt["f"]["name"] for rb in region for tt in [fn.blocks[rb]["t"]] if tt["t"] == "call" and
                       re.search(r"BTreeSet::<T(, A)?>::\w+$|MatchingIterator", tt["f"].get("name") or "")]
            if touched:
                ck.bad("R1.3", "R1.3@%s::%s#unknown-constant" % (store, method), "when a constant term is unknown to the term index, %s::%s "
                       "still consults %s" % (store, method, touched[0]), fn.loc)
        if lookups:
            ck.ok("R1.3", "%s::%s: %d index lookups; the unknown-term edge touches no set" % (store, method, lookups))
        else:
            ck.bad("R1.3", "R1.3@%s::%s#no-lookup" % (store, method), "no term-index lookup with an `unknown` edge found (shape not recognised)", fn.loc)


ITERATORS = [("dataset::_iter::GspoMatchingIterator", 4, 4), ("dataset::_iter::BcdMatchingIterator", 4, 3),
             ("dataset::_iter::CdMatchingIterator", 4, 2), ("graph::_iter::SpoMatchingIterator", 3, 3),
             ("graph::_iter::BcMatchingIterator", 3, 2)]


def elem_pos(fn, op):
    """position k if the operand is element k of a fixed-size index array (`[a, b, c, d] = *x`)"""
    if op[0] == "k":
        return None
    l = op[1][0]
    for _ in range(6):
        sd = fn.single_def(l)
        if sd is None:
            return None
        rv = sd[2]
        if rv[0] == "use" and rv[1][0] in ("c", "m"):
            pl = rv[1][1]
            for pr in pl[1:]:
                m = re.match(r"c(\d+):\d+:0$", pr)
                if m:
                    return int(m.group(1))
            l = pl[0]
            continue
        if rv[0] == "ref" and len(rv[2]) == 1:
            l = rv[2][0]
            continue
        return None
    return None


def iterator_rule(ck, facts):
    count = 0
    for path, n, nmatch in ITERATORS:
        short = path.split("::")[-1]
        new = [f for f in facts.fns.values() if f.crate == "sophia_inmem" and re.search(r"%s::<.*>::new$" % re.escape(path), f.name)]
        nxt = [f for f in facts.fns.values() if f.crate == "sophia_inmem" and re.search(r"<%s<.*> as std::iter::Iterator>::next$" % re.escape(path), f.name)]
        if len(new) != 1 or len(nxt) != 1:
            ck.bad("R1.5", "R1.5@%s#anchor" % short, "anchor-missing: %s::new / next (%d/%d)" % (short, len(new), len(nxt)))
            continue
        count += 1
        new, nxt = new[0], nxt[0]
        key = "R1.5@%s" % short
        # ---- new(): fields
        field_pos = {}      # struct field index -> position
        uninit = set()
        data_locals = {}
        for bi, t in new.calls():
            mm = re.search(r"(TermData|GraphNameData)::<.*>::(new|uninit)$", t["f"].get("name") or "")
            if not mm:
                continue
            mo = provenance(new, t["args"][0], transparent=())[-1]
            k = elem_pos(new, t["args"][1])
            if mo[0] != "param" or k is None:
                ck.bad("R1.5", key + "#new-shape", "%s::new: cannot tell which matcher/element builds a field" % short, new.loc)
                continue
            mpos = n - nmatch + (mo[1] - 3)        # params: 1 terms, 2 iterator, 3.. matchers
            if mpos != k:
                ck.bad("R1.5", key + "#new:matcher%d-with-element%d" % (mpos, k), "%s::new pairs the matcher of position %d with element %d of the "
                       "first row" % (short, mpos, k), "%s:%s" % (t["file"], t["line"]))
            data_locals[t["dest"][0]] = (k, mm.group(2))
        for bi, si, dest, ops in blocks_with_agg(new, None):
            st = new.blocks[bi]["s"][si]
            if not st[2][1].get("def", "").endswith(short):
                continue
            for idx, op in enumerate(ops):
                if op[0] != "k":
                    als = [l for l in data_locals if op[1][0] in forward_aliases(new, l)]
                    if als:
                        field_pos[idx] = data_locals[als[0]][0]
                        if data_locals[als[0]][1] == "uninit":
                            uninit.add(idx)
        if len(field_pos) != nmatch:
            ck.bad("R1.5", key + "#fields", "%s::new: expected %d cached positions, found %d" % (short, nmatch, len(field_pos)), new.loc)
            continue
        # ---- next()
        def field_idx(op):
            l, path2 = root_local(nxt, op)
            if l == 1 and path2:
                m = re.match(r"f(\d+):", path2[0])
                return int(m.group(1)) if m else None
            return None
        updates = {}
        for bi, t in nxt.calls():
            if re.search(r"(TermData|GraphNameData)::<.*>::update$", t["f"].get("name") or ""):
                fi = field_idx(t["args"][0])
                k = elem_pos(nxt, t["args"][1])
                if fi is None or k is None:
                    ck.bad("R1.5", key + "#update-shape", "%s::next: update call not recognised" % short, "%s:%s" % (t["file"], t["line"]))
                    continue
                if field_pos.get(fi) != k:
                    ck.bad("R1.5", key + "#update:field%s-with-element%d" % (field_pos.get(fi), k), "%s::next updates the cache of position %s with "
                           "element %d of the row" % (short, field_pos.get(fi), k), "%s:%s" % (t["file"], t["line"]))
                # guard
                guarded = None
                for cand in sorted(nxt.dominators().get(bi, ())):
                    bs = bool_switch(nxt, cand)
                    cmp_ = None
                    if bs and bs[0][0] == "rvalue" and bs[0][1][0] == "bin" and bs[0][1][1] in ("Ne", "Eq"):
                        cmp_ = (bs[0][1][1], bs[0][1][2], bs[0][1][3])
                    elif bs and bs[0][0] == "call" and call_name_matches(bs[0][1], r"cmp::PartialEq(<.*>)?>?::(ne|eq)$") and len(bs[0][1]["args"]) == 2:
                        cmp_ = ("Ne" if (bs[0][1]["f"].get("name") or "").endswith("::ne") else "Eq", bs[0][1]["args"][0], bs[0][1]["args"][1])
                    if cmp_:
                        a_, b_ = cmp_[1], cmp_[2]
                        tgt = bs[1] if cmp_[0] == "Ne" else bs[2]
                        if edge_dominates(nxt, (cand, tgt), bi):
                            ka, kb = elem_pos(nxt, a_), elem_pos(nxt, b_)
                            fa, fb = field_idx(a_) if ka is None else None, field_idx(b_) if kb is None else None
                            guarded = (ka if ka is not None else kb, fa if fa is not None else fb)
                if guarded is not None:
                    gk, gf = guarded
                    if gk != k or gf != fi:
                        ck.bad("R1.5", key + "#guard:position%d" % k, "%s::next: the cache of position %d is refreshed under a test that compares "
                               "element %s with the cached index of field #%s" % (short, k, gk, gf), "%s:%s" % (t["file"], t["line"]))
                    if fi in uninit:
                        ck.bad("R1.5", key + "#uninit-not-refreshed:position%d" % k, "%s: position %d is built with `uninit` (flag preset to true, "
                               "matcher not evaluated) but is only refreshed when its index changes: rows sharing the first row's value pass "
                               "without consulting the matcher" % (short, k), "%s:%s" % (t["file"], t["line"]))
                updates[fi] = (bi, guarded is not None)
        for fi, k in field_pos.items():
            if fi not in updates:
                ck.bad("R1.5", key + "#no-update:position%d" % k, "%s::next never refreshes the cache of position %d" % (short, k), nxt.loc)
        # flags: Some(..) only under every field's flag
        somes = [bi for bi, si, dest, ops in blocks_with_agg(nxt, "core::option::Option", "Some")]
        flags = {}
        for bi, b in enumerate(nxt.blocks):
            bs = bool_switch(nxt, bi)
            if bs and bs[0][0] in ("param", "place"):
                t = nxt.blocks[bi]["t"]
                l, path2 = root_local(nxt, t["on"])
                if l == 1 and len(path2) >= 2 and path2[-1].endswith(":b"):
                    m = re.match(r"f(\d+):", path2[0])
                    if m:
                        flags.setdefault(int(m.group(1)), []).append((bi, bs[1]))
                # negated test: `if !self.k.b { continue }`
            elif bs and bs[0][0] == "rvalue":
                pass
        # handle negated flags: bool_switch folds `!x` so origin is the place; covered above
        for fi, k in field_pos.items():
            if fi not in flags:
                ck.bad("R1.5", key + "#no-flag-test:position%d" % k, "%s::next does not test the match flag of position %d" % (short, k), nxt.loc)
                continue
            for sb in somes:
                # one of the tests of this flag (there may be others, e.g. inside a debug_assert!) guards the return
                if not any(edge_dominates(nxt, e, sb) for e in flags[fi]):
                    ck.bad("R1.5", key + "#unflagged-return:position%d" % k, "%s::next can return a row without the flag of position %d being true" % (short, k), nxt.loc)
        if not any(f.key.startswith(key) for f in ck.findings):
            ck.ok("R1.5", "%s: %d cached positions %s, uninit=%s, guards/flags consistent" % (short, nmatch, sorted(field_pos.values()), sorted(field_pos[i] for i in uninit)))
    ck.floor("R1.5", "matching iterators", count, 5)


def constant_rule(ck, facts):
    n = 0
    for i in facts.impls:
        tr = i.get("trait") or ""
        if not tr.endswith(("matcher::_trait::TermMatcher", "matcher::_graph_name_matcher::GraphNameMatcher")):
            continue
        items = {x["name"]: facts.fns.get(x["def"]) for x in i["items"] if x["kind"] == "AssocFn"}
        fn = items.get("constant")
        if fn is None:
            continue
        n += 1
        st = i["self_ty"]
        key = "R1.6@%s as %s" % (st, tr.split("::")[-1])
        calls = [t for _, t in fn.calls()]
        names = [t["f"].get("name") or "" for t in calls]
        somes = [(bi, ops) for bi, si, dest, ops in blocks_with_agg(fn, "core::option::Option", "Some")]
        mfn = items.get("matches")
        # (b) pure delegation to the wrapped matcher
        deleg = [t for t in calls if call_name_matches(t, r"(TermMatcher|GraphNameMatcher)>?::constant$")]
        if deleg and len(deleg) == 1 and all(call_name_matches(t, r"(TermMatcher|GraphNameMatcher)>?::constant$|Option::<T>::map$") for t in calls):
            ok = mfn is not None and [t for _, t in mfn.calls() if call_name_matches(t, r"(TermMatcher|GraphNameMatcher)>?::matches$")] \
                and not any(call_name_matches(t, r"ops::Not") for _, t in mfn.calls()) \
                and not any(st2[0] == "=" and st2[2][0] == "un" and st2[2][1] == "Not" for b in mfn.blocks for st2 in b["s"])
            if ok:
                ck.ok("R1.6", "%s: constant() and matches() both delegate to the wrapped matcher (un-negated)" % st)
            else:
                ck.bad("R1.6", key + "#delegation", "%s forwards constant() but its matches() is not an un-negated forward" % st, fn.loc)
            continue
        # (a) cardinality-1: Option::as_ref of self, or Some only under `len/N == 1`
        if not somes and any(re.search(r"Option::<T>::as_ref$", nm) for nm in names) and all(re.search(r"Option::<T>::(as_ref|map)$", nm) for nm in names):
            ck.ok("R1.6", "%s: constant() = self.as_ref() (an Option holds at most one term)" % st)
            continue
        if somes:
            good = True
            for sbi, ops in somes:
                g = False
                for cand in sorted(fn.dominators().get(sbi, ())):
                    bs = bool_switch(fn, cand)
                    if bs and bs[0][0] == "rvalue" and bs[0][1][0] == "bin" and bs[0][1][1] == "Eq":
                        ob = fn.origin(bs[0][1][3])
                        oa = fn.origin(bs[0][1][2])
                        one = any(o[0] == "const" and o[1].get("v") == "1" for o in (oa, ob))
                        card = any((o[0] == "call" and call_name_matches(o[1], r"::len$")) or (o[0] == "const" and o[1].get("kind") == "generic") for o in (oa, ob))
                        if one and card and edge_dominates(fn, (cand, bs[1]), sbi):
                            g = True
                    # enum variant guard (SparqlMatcher::Bound)
                    tt = fn.blocks[cand]["t"]
                    if tt["t"] == "switch" and tt.get("variants") and tt["variants"]["enum"].endswith("SparqlMatcher"):
                        names_v = tt["variants"]["names"]
                        for v, tb in tt["vals"]:
                            if names_v.get(v) == "Bound" and edge_dominates(fn, (cand, tb), sbi):
                                # matches(): the Bound arm must be Term::eq(t, .)
                                okm = False
                                if mfn is not None:
                                    for b2 in range(len(mfn.blocks)):
                                        t2 = mfn.blocks[b2]["t"]
                                        if t2["t"] == "switch" and t2.get("variants") and t2["variants"]["enum"].endswith("SparqlMatcher"):
                                            for v2, tb2 in t2["vals"]:
                                                if t2["variants"]["names"].get(v2) == "Bound":
                                                    reg = mfn.reachable(tb2, avoid={x for _, x in t2["vals"] if x != tb2} | {t2["else"]})
                                                    cs = [mfn.blocks[r]["t"] for r in reg if mfn.blocks[r]["t"]["t"] == "call"]
                                                    if any(call_name_matches(c, r"Term>?::eq$") and c["dest"] == [0] for c in cs):
                                                        okm = True
                                g = okm
                if not g:
                    good = False
            if good:
                ck.ok("R1.6", "%s: constant() is Some only under a cardinality-1 / Bound-variant guard" % st)
            else:
                ck.bad("R1.6", key + "#unguarded-some", "%s::constant() can return Some(t) without a guard that makes the matcher equivalent to "
                       "`== t` (stores use constant() to narrow the scan and then skip the matcher)" % st, fn.loc)
            continue
        ck.bad("R1.6", key + "#unaudited-shape", "constant() of %s has none of the audited shapes" % st, fn.loc)
    ck.floor("R1.6", "constant() overrides", n, 10)
    # matchers that must NOT override constant
    for i in facts.impls:
        tr = i.get("trait") or ""
        if tr.endswith(("matcher::_trait::TermMatcher", "matcher::_graph_name_matcher::GraphNameMatcher")) and "_not::Not<" in i["self_ty"]:
            if any(x["name"] == "constant" for x in i["items"]):
                ck.bad("R1.6", "R1.6@Not#constant", "Not<M> overrides constant(): a negated matcher is not equivalent to one term", "%s:%s" % (i["file"], i["line"]))
            else:
                ck.ok("R1.6", "%s does not override constant()" % i["self_ty"], nontrivial=False)


def counters_rule(ck, facts):
    n = 0
    for trait, prim in (("graph::MutableGraph", "triple"), ("dataset::MutableDataset", "quad")):
        for m in ("insert_all", "remove_all"):
            fns = facts.find_fns(crate="sophia_api", name_re=r"^%s::%s$" % (trait, m))
            if len(fns) != 1:
                ck.bad("R1.7", "R1.7@%s::%s#anchor" % (trait, m), "anchor-missing (%d)" % len(fns))
                continue
            fn = fns[0]
            n += 1
            clos = [c for c in facts.with_closures(fn)[1:] if any(call_name_matches(t, r"Mutable(Graph|Dataset)>?::(insert|remove)_?(triple|quad)?$") for _, t in c.calls())]
            if len(clos) != 1:
                ck.bad("R1.7", "R1.7@%s::%s#closure" % (trait, m), "cannot find the per-item closure (%d)" % len(clos), fn.loc)
                continue
            c = clos[0]
            call = [t for _, t in c.calls() if call_name_matches(t, r"Mutable(Graph|Dataset)>?::(insert|remove)_?(triple|quad)?$")][0]
            # the counter increment: an Add on a captured counter, edge-dominated by the true edge of the flag
            incs = []
            for bi, b in enumerate(c.blocks):
                for st in b["s"]:
                    if st[0] == "=" and st[2][0] == "bin" and st[2][1] in ("AddWithOverflow", "Add", "AddUnchecked"):
                        incs.append(bi)
            edge = try_success_edge(c, call)
            ok = False
            if incs:
                # `?` form: the flag is the Continue payload; match form: the flag is the payload of the Ok arm
                for cand in sorted(c.reachable(edge[1] if edge else call["to"])):
                    bs = bool_switch(c, cand)
                    if bs:
                        src = comes_from_call(c, c.blocks[cand]["t"]["on"], r"Mutable(Graph|Dataset)>?::(insert|remove)_?(triple|quad)?$",
                                              transparent=TRANSPARENT + (r"ops::Try>?::branch$",))
                        if src and all(edge_dominates(c, (cand, bs[1]), ib) for ib in incs):
                            ok = True
            if ok:
                ck.ok("R1.7", "%s::%s counts an item only if the store reported a change" % (trait.split("::")[-1], m))
            else:
                ck.bad("R1.7", "R1.7@%s::%s#counting" % (trait.split("::")[-1], m), "%s counts items without testing the flag returned by the "
                       "store (attempts instead of effective changes)" % m, c.loc)
        for m in ("remove_matching", "retain_matching"):
            fns = facts.find_fns(crate="sophia_api", name_re=r"^%s::%s$" % (trait, m))
            if len(fns) != 1:
                ck.bad("R1.7", "R1.7@%s::%s#anchor" % (trait, m), "anchor-missing (%d)" % len(fns))
                continue
            fn = fns[0]
            n += 1
            coll = [bi for bi, t in fn.calls() if call_name_matches(t, r"iter::Iterator::collect$|::collect_(triples|quads)$|FromIterator")]
            rem = [(bi, t) for bi, t in fn.calls() if call_name_matches(t, r"Mutable(Graph|Dataset)>?::remove_all$")]
            if len(rem) == 1 and coll and all(fn.dominates(cb, rem[0][0]) for cb in coll[:1]):
                ck.ok("R1.7", "%s::%s collects the matches, then remove_all(collected)" % (trait.split("::")[-1], m))
            else:
                ck.bad("R1.7", "R1.7@%s::%s#collect-then-remove" % (trait.split("::")[-1], m), "%s must collect the matching items before "
                       "calling remove_all once (found %d remove_all, %d collect)" % (m, len(rem), len(coll)), fn.loc)
    ck.floor("R1.7", "bulk mutation defaults", n, 8)


MUTATORS = r"Vec::<T, A>::(push|insert|extend_from_slice|truncate|pop|remove|clear)$|VacantEntry::<'a, K, V, A>::insert(_entry)?$|" \
           r"Entry::<'a, K, V, A>::(or_insert|or_insert_with|or_default)$|HashMap::<K, V, S, A>::(insert|remove|clear)$|" \
           r"BTree(Set|Map)::<.*>::(insert|remove|clear)$"


def index_full_rule(ck, facts):
    """R1.4b: a term index reports `index full` *before* it changes anything: in every ensure_index of sophia_inmem no
    path leads from a mutation of the index (push / entry insert / map insert) to a return of Err(..) — otherwise a
    rejected insertion leaves a term registered under the reserved index MAX (the default graph's) or a dangling slot."""
    fns = [f for f in facts.fns.values() if f.crate == "sophia_inmem" and f.kind != "Closure"
           and re.search(r"TermIndex>::ensure_index$", f.name)]
    for fn in fns:
        errs = [bi for bi, b in enumerate(fn.blocks) if not b.get("cleanup") for st in b["s"]
                if st[0] == "=" and st[1] == [0] and st[2][0] == "agg" and st[2][1].get("vname") == "Err"]
        muts = [(bi, t) for f2 in [fn] for bi, t in f2.calls() if call_name_matches(t, MUTATORS)]
        late = [(bi, t) for bi, t in muts if any(e in fn.reachable(t["to"]) for e in errs)]
        short = fn.name.split(" as ")[0].lstrip("<")
        if not errs:
            ck.ok("R1.4b", "%s::ensure_index cannot fail" % short, nontrivial=False)
        elif late:
            bi, t = late[0]
            ck.bad("R1.4b", "R1.4b@%s::ensure_index#mutation-before-failure" % short,
                   "%s mutates the index (%s) on a path that can still return Err(index full): the rejected term stays registered"
                   % (short, t["f"]["name"].split("::")[-1]), "%s:%s" % (t["file"], t["line"]))
        else:
            ck.ok("R1.4b", "%s::ensure_index: Err(index full) is returned before any mutation (%d mutation sites, %d error returns)"
                  % (short, len(muts), len(errs)))
    ck.floor("R1.4b", "ensure_index implementations in sophia_inmem", len(fns), 1)


def who_may_write_rule(ck, facts, crate="sophia_inmem", floor=20):
    """R1.8: the ordered index sets of the stores are borrowed mutably only by the primitives `insert` and `remove` (whose
    pairing of primary and secondary writes R1.1 decides).  Any other function of sophia_inmem taking `&mut` of a BTreeSet
    (a bulk-loading override, a helper, a `retain`) bypasses that pairing and must be audited."""
    allowed = re.compile(r"^<(dataset|graph)::Generic(Fast|Light)(Dataset|Graph)<TI> as sophia_api::(dataset::MutableDataset|graph::MutableGraph)>::(insert|remove)$")
    n = 0
    offenders = {}
    for fn in facts.fns.values():
        if fn.crate != crate:
            continue
        root = fn if fn.kind != "Closure" else facts.fns.get(fn.root, fn)
        if root.impl and root.impl.get("derived"):
            continue
        for b in fn.blocks:
            if b.get("cleanup"):
                continue
            for st in b["s"]:
                if st[0] == "=" and st[2][0] == "ref" and st[2][1] == "mut" and len(st[1]) == 1 \
                        and fn.locals[st[1][0]]["ty"].startswith("&mut std::collections::BTreeSet<"):
                    n += 1
                    if not allowed.match(root.name):
                        offenders.setdefault(root.name, "%s:%s" % (fn.file, st[3]))
    for name, loc in sorted(offenders.items()):
        ck.bad("R1.8", "R1.8@%s#mutates-index-set" % name,
               "%s takes `&mut` of an ordered index set outside insert/remove: the primary/secondary pairing decided by R1.1 does "
               "not cover it (e.g. a bulk insertion that fills one index first leaves the others behind when the stream fails)" % name, loc)
    if not offenders:
        ck.ok("R1.8", "index sets are mutably borrowed only in insert/remove of the four stores (%d borrows)" % n)
    ck.floor("R1.8", "mutable borrows of index sets", n, floor)


LIST_MUT = re.compile(r"^std::vec::Vec::<T, A>::(push|swap_remove|remove|retain|retain_mut|insert|clear|truncate|pop|drain|dedup\w*|extend\w*|append)$")
SET_MUT = re.compile(r"^std::collections::(HashSet::<T, S, A>|BTreeSet::<T, A>)::(insert|remove|replace|take)$")
DELEG_MUT = re.compile(r"(MutableDataset|MutableGraph)>?::(insert|remove)$")


def _flag_sources(fn, operand, bi, seen=None):
    """reaching definitions (flow-insensitive) of a bool operand: ('const', bool, block) | ('call', term, block) |
    ('cmp', rvalue, block) | ('other', rvalue, block)"""
    seen = seen if seen is not None else set()
    if operand[0] == "k":
        return [("const", operand[1].get("v") == "1", bi)]
    local = operand[1][0]
    if len(operand[1]) > 1 or local in seen:
        return [("other", operand, bi)]
    seen.add(local)
    out = []
    for b, si, rv in fn.defs().get(local, []):
        if fn.blocks[b].get("cleanup"):
            continue
        if rv[0] == "call":
            out.append(("call", rv[1], b))
        elif rv[0] == "use":
            out.extend(_flag_sources(fn, rv[1], b, seen))
        elif rv[0] == "bin" and rv[1] in ("Ne", "Lt", "Gt", "Eq", "Le", "Ge"):
            out.append(("cmp", rv, b))
        else:
            out.append(("other", rv, b))
    return out


def list_flag_hits(fn, kind):
    """R1.9 on one insert/remove implementation; yields (key suffix, message)."""
    import mirutil
    muts = [(bi, t) for bi, t in fn.calls() if LIST_MUT.match(t["f"].get("res_name") or t["f"].get("name") or "")
            or SET_MUT.match(t["f"].get("res_name") or t["f"].get("name") or "")
            or DELEG_MUT.search(t["f"].get("res_name") or t["f"].get("name") or "")]
    name = lambda t: (t["f"].get("res_name") or t["f"].get("name") or "?")
    if not muts:
        yield "#no-mutation", "no call that changes the underlying collection was recognised"
        return
    oks = list(mirutil.blocks_with_agg(fn, "core::result::Result", "Ok"))
    rets = []      # (source, block of the Ok aggregate)
    for bi, si, dest, ops in oks:
        if dest != [0] or len(ops) != 1:
            continue
        for src in _flag_sources(fn, ops[0], bi):
            rets.append((src, bi))
    deleg = [t for bi, t in muts if DELEG_MUT.search(name(t))]
    if not rets:
        # `T::remove(*self, ..)` returned as is
        if deleg and all(t["dest"] == [0] for t in deleg):
            return
        yield "#flag-shape", "cannot find the returned Ok(flag)"
        return
    mut_targets = [t["to"] for bi, t in muts if t.get("to") is not None]
    after_mut = set()
    for tgt in mut_targets:
        after_mut |= fn.reachable(tgt)
    sets_true = set()
    flag_is_call = False
    for src, okb in rets:
        if src[0] == "call":
            t = src[1]
            if SET_MUT.match(name(t)) or DELEG_MUT.search(name(t)):
                flag_is_call = True
            else:
                yield "#flag-source:%s" % name(t).split("::")[-1], "the returned flag is the result of %s, not of the change made to the collection" % name(t)
        elif src[0] == "const":
            val, b = src[1], src[2]
            if val:
                sets_true.add(b)
                if not any(fn.dominates(mb, b) and (mb != b) for mb, _ in muts):
                    yield "#constant-true", ("`true` is reported on a path that does not go through a change of the collection (%s): the "
                                             "flag does not say whether the %s changed anything" % (", ".join(sorted({name(t).split("::")[-1] for _, t in muts})), kind))
            else:
                if b in after_mut:
                    yield "#false-after-change", "`false` can be reported after the collection was changed"
        elif src[0] == "cmp":
            rv = src[1]
            lens = 0
            for op in (rv[2], rv[3]):
                o = fn.origin(op)
                if o[0] == "call" and re.search(r"::len$", name(o[1])):
                    lens += 1
            if lens != 2:
                yield "#flag-shape", "the returned flag is a comparison that is not `len before` vs `len after`"
            else:
                sets_true |= {src[2]}
        else:
            yield "#flag-shape", "the returned flag has no recognised source"
    if not flag_is_call:
        # every change must be reported: from a mutating call, `ret` is reachable only through a block that sets the flag
        for mb, t in muts:
            if t.get("to") is None:
                continue
            reach = fn.reachable(t["to"], avoid=sets_true)
            if any(r in reach for r in fn.ret_blocks()):
                yield "#change-not-reported:%s" % name(t).split("::")[-1], "after %s the function can return without setting the flag to true" % name(t)
    if kind == "remove":
        for mb, t in muts:
            if re.search(r"Vec::<T, A>::(swap_remove|remove)$", name(t)) and t.get("to") is not None and mb not in fn.reachable(t["to"]):
                yield "#first-occurrence-only", ("%s is not in a loop: a list can hold the item several times (insert always pushes), so the "
                                                 "item is still contained after remove()" % name(t).split("::")[-1])


def list_flag_rule(ck, facts):
    """R1.9: insert/remove of the foreign (Vec / HashSet / BTreeSet / &mut T) graphs and datasets of sophia_api."""
    n = 0
    for fn in sorted(facts.fns.values(), key=lambda f: f.id):
        if fn.crate != "sophia_api" or "_foreign_impl" not in fn.file or fn.kind == "closure":
            continue
        m = re.search(r"<impl (?:dataset::MutableDataset|graph::MutableGraph) for (.*)>::(insert|remove)$", fn.name)
        if not m:
            continue
        n += 1
        short = "%s::%s" % (m.group(1).replace("std::collections::", "").replace("std::vec::", "").replace("std::option::", ""), m.group(2))
        hits = sorted(set(list_flag_hits(fn, m.group(2))))
        for suf, msg in hits:
            ck.bad("R1.9", "R1.9@%s%s" % (short, suf), "%s: %s" % (short, msg), fn.loc)
        if not hits:
            ck.ok("R1.9", "%s: the flag is the container's own, or true exactly after a change; removal covers every occurrence" % short)
    ck.floor("R1.9", "insert/remove of foreign collections", n, 22)


def list_flag_controls(ck):
    import core
    exp = {"pos_remove_constant_flag": r"#constant-true", "pos_remove_first_only": r"#first-occurrence-only",
           "pos_remove_unreported": r"#false-after-change", "pos_insert_silent": r"#constant-true",
           "neg_remove_all": None, "neg_remove_retain": None, "neg_insert_push": None}
    for nm, pat in exp.items():
        fn = core.fixture_fn("ListStore::" + nm)
        hits = [s for s, _ in list_flag_hits(fn, "insert" if "insert" in nm else "remove")]
        if pat:
            ck.control("R1.9", "ListStore::" + nm, any(re.search(pat, h) for h in hits))
        else:
            ck.control("R1.9", "ListStore::" + nm, bool(hits), expect=False, note=";".join(hits))


def run(ck, facts, tier):
    facts.require_crates(["sophia_inmem", "sophia_api", "sophia_sparql"])
    index_full_rule(ck, facts)
    import core
    pr = core.Probe()
    who_may_write_rule(pr, core.fixture_facts(), crate="vfix", floor=0)
    ck.control("R1.8", "TwoIndexes::pos_bulk_load (fills one index first)", pr.fired(r"pos_bulk_load#mutates-index-set$"))
    ck.control("R1.8", "TwoIndexes::neg_read_only", pr.fired(r"neg_read_only"), expect=False)
    who_may_write_rule(ck, facts)
    list_flag_controls(ck)
    list_flag_rule(ck, facts)
    total_scans = 0
    for store, kind, n in STORES:
        perms = mutation_rule(ck, facts, store, kind, n)
        if perms:
            total_scans += query_rule(ck, facts, store, kind, n, perms) or 0
            unknown_constant_rule(ck, facts, store, n)
    ck.floor("R1.2", "range scans analysed", total_scans, 25)
    iterator_rule(ck, facts)
    constant_rule(ck, facts)
    counters_rule(ck, facts)
    ck.assumptions = ["BTreeSet, HashMap and Term::eq/hash (C02) are correct", "term indexes handed out by SimpleTermIndex are < MAX "
                      "(ensure_index rejects i >= MAX: C10/R1.4)", "all index widths share the generic code analysed here"]
    ck.trusted = ["rustc MIR", "the role-propagation transfer functions in rules/roles.py (role-preserving callee list)"]
    import witness
    witness.apply(ck, "C01")
