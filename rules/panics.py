"""Panic audit engine (R8.2 and its instances R6.4, R9.5, R12.2, R13.4, R14.3, R20.2).

Enumerates, from MIR, every construct of the analysed functions that can panic, gives each a *semantic* key
(function, kind, callee/macro, operand origin — never a line number), auto-discharges the ones whose guard is visible in
the code, and leaves the rest to an audited table; anything in neither class is a violation (fail closed)."""
import re
import callgraph
from core import CheckError
from mirutil import call_name_matches, provenance, bool_switch, edge_dominates, comes_from_call, TRANSPARENT

PANIC_FNS = r"^core::panicking::|^std::rt::(panic|begin_panic)|^core::option::(unwrap_failed|expect_failed)$|^core::result::unwrap_failed$|^core::slice::index::slice_|^core::str::slice_error_fail|^std::process::abort$|^core::str::traits::str_index_overflow_fail|^alloc::alloc::handle_alloc_error"
UNWRAPS = r"^std::option::Option::<T>::(unwrap|expect)$|^std::result::Result::<T, E>::(unwrap|expect|unwrap_err|expect_err)$"
INDEXES = r"ops::Index<.*>::index$|ops::IndexMut<.*>::index_mut$|ops::Index<I> for|ops::IndexMut<I> for|as std::ops::Index<.*>>::index$|as std::ops::IndexMut<.*>>::index_mut$"
ACCESSOR_KIND = {"iri": "Iri", "bnode_id": "BlankNode", "lexical_form": "Literal", "datatype": "Literal",
                 "triple": "Triple", "to_triple": "Triple", "variable": "Variable"}


def norm_key(k):
    """keys never contain the ordinal of a closure: `f::{closure#2}::{closure#0}` -> `f::{closure}::{closure}`"""
    return re.sub(r"\{closure#\d+\}", "{closure}", k)


def norm_table(table):
    """normalise the keys of an audited table; entries that become equal are merged (their counts add up)"""
    out = {}
    for k, v in table.items():
        nk = norm_key(k)
        if nk in out and isinstance(v, tuple) and isinstance(v[0], int):
            out[nk] = (out[nk][0] + v[0], out[nk][1])
        else:
            out[nk] = v
    return out


class Site:
    def __init__(self, fn, bi, kind, what, detail, loc, exp):
        self.fn = fn
        self.bi = bi
        self.kind = kind          # panic-call | unwrap | index | assert
        self.what = what          # callee / macro / assert kind
        self.detail = detail      # operand origin descriptor
        self.loc = loc
        self.exp = exp
        self.status = None
        self.reason = None

    @property
    def key(self):
        # closure ordinals are positional (adding a closure earlier in the function renumbers the others): not part of the key
        return "%s#%s:%s:%s" % (norm_key(self.fn.name), self.kind, self.what, self.detail)


def origin_desc(fn, operand):
    """short, line-free description of where a value comes from"""
    if operand is None:
        return "-"
    o = fn.origin(operand)
    if o[0] == "call":
        return "call:" + (o[1]["f"].get("name") or "?")
    if o[0] == "place" and o[1]:
        sd = fn.single_def(o[1][0])
        if sd is not None and sd[2][0] == "call":
            # see through Option / Result combinators: `m.get(k).and_then(Option::as_ref)` and a `match m.get(k)` name the same source
            t = sd[2][1]
            for _ in range(6):
                nm = t["f"].get("name") or "?"
                if re.search(r"^std::(option::Option|result::Result)::<.*>::(and_then|as_ref|as_mut|map|copied|cloned|ok|filter|flatten|as_deref)$", nm) and t["args"]:
                    src = fn.origin(t["args"][0])
                    if src[0] == "call":
                        t = src[1]
                        continue
                    if src[0] == "place" and src[1]:
                        sd2 = fn.single_def(src[1][0])
                        if sd2 is not None and sd2[2][0] == "call":
                            t = sd2[2][1]
                            continue
                break
            return "proj-of-call:" + (t["f"].get("name") or "?")
        return "place"
    if o[0] == "param":
        return "param%d%s" % (o[1], ("." + ".".join(p.split(":")[-1] or p for p in o[2])) if o[2] else "")
    if o[0] == "const":
        return "const"
    if o[0] == "agg":
        return "agg:" + o[1]["k"]
    return o[0]


def macro_of(exp):
    for m in ("debug_assert", "debug_assert_eq", "debug_assert_ne", "assert", "assert_eq", "assert_ne", "unreachable",
              "todo", "unimplemented", "panic"):
        if m in exp:
            return m
    return "panic"


def sites_of(fn, map_unchecked=False):
    """`map_unchecked`: also list the calls of the wrappers' `map_unchecked` (kind "map-unchecked"; the caller decides whether the mapped
    function merely converts the wrapped string or replaces it, which makes the call an unchecked construction)"""
    out = []
    for bi, b in enumerate(fn.blocks):
        if b.get("cleanup"):
            continue
        t = b["t"]
        if t["t"] == "call":
            f = t["f"]
            name = f.get("name") or ""
            loc = "%s:%s" % (t["file"], t["line"])
            if re.search(PANIC_FNS, name):
                mac = macro_of(t["exp"])
                # what was asserted: the nearest dominating boolean switch
                detail = "-"
                if mac.startswith("debug_assert") or mac.startswith("assert"):
                    for cand in sorted(fn.dominators().get(bi, ()), reverse=True):
                        bs = bool_switch(fn, cand)
                        if bs:
                            o = bs[0]
                            if o[0] == "call":
                                # is_ok()/is_some() of a validator call ?
                                inner = o[1]
                                nm = inner["f"].get("name") or "?"
                                if re.search(r"::is_ok$|::is_some$|::is_err$|::is_none$", nm) and inner["args"]:
                                    src = fn.origin(inner["args"][0])
                                    if src[0] == "call":
                                        nm = nm.split("::")[-1] + "(" + (src[1]["f"].get("name") or "?") + ")"
                                detail = nm
                            else:
                                detail = o[0]
                            break
                out.append(Site(fn, bi, "panic-call", mac, detail, loc, t["exp"]))
            elif re.search(UNWRAPS, name):
                out.append(Site(fn, bi, "unwrap", name.split("::")[-1], origin_desc(fn, t["args"][0]), loc, t["exp"]))
            elif re.search(INDEXES, name) or (f.get("trait") or "").endswith(("ops::index::Index", "ops::index::IndexMut")):
                recv = t["args"][0]
                rty = fn.locals[recv[1][0]]["ty"] if recv[0] != "k" else "?"
                rty = re.sub(r"^&(mut )?", "", rty)
                cont = "other"
                for pat, nm in ((r"^std::collections::HashMap<", "HashMap"), (r"^std::collections::BTreeMap<", "BTreeMap"),
                                (r"^std::vec::Vec<", "Vec"), (r"^\[", "slice"), (r"^str$", "str"), (r"^std::boxed::Box<str>$", "str"),
                                (r"^std::string::String$", "str"), (r"^std::sync::Arc<str>$", "str"), (r"MownStr", "str"),
                                (r"^std::collections::VecDeque<", "VecDeque")):
                    if re.search(pat, rty):
                        cont = nm
                        break
                if cont == "other":
                    cont = re.sub(r"<.*", "", rty).split("::")[-1]
                idx = t["args"][1] if len(t["args"]) > 1 else None
                idesc = origin_desc(fn, idx)
                if idx is not None:
                    io = fn.origin(idx)
                    if io[0] == "agg" and io[1].get("vname", "").startswith("Range"):
                        idesc = io[1]["vname"]
                    elif io[0] == "const" and io[1].get("kind") == "int":
                        idesc = "const:" + io[1]["v"]
                    elif io[0] == "const" and io[1].get("kind") == "str":
                        idesc = "key:" + str(io[1]["v"])[-24:]
                out.append(Site(fn, bi, "index", cont, idesc, loc, t["exp"]))
                out[-1].recv_ty = rty
        if t["t"] == "call":
            # panicking functions passed as values:  .map(Result::unwrap)
            for a in t["args"]:
                if a[0] == "k" and a[1].get("kind") == "fn" and re.search(r"^core::(result|option)::\{impl#\d+\}::(unwrap|expect)$", a[1].get("def", "")):
                    out.append(Site(fn, bi, "unwrap", "fnref:" + a[1]["def"].split("::")[-1], "arg-of:" + (t["f"].get("name") or "?"),
                                    "%s:%s" % (t["file"], t["line"]), t["exp"]))
            nm = t["f"].get("name") or ""
            if re.search(r"::new_unchecked$", nm) and (t["f"].get("krate") or "").startswith("sophia"):
                out.append(Site(fn, bi, "validator-call", nm.split("::")[-3] if nm.count("::") >= 2 else nm,
                                origin_desc(fn, t["args"][0]) if t["args"] else "-", "%s:%s" % (t["file"], t["line"]), t["exp"]))
            if map_unchecked and re.search(r"::map_unchecked$", nm) and (t["f"].get("krate") or "").startswith("sophia") and len(t["args"]) > 1:
                site = Site(fn, bi, "map-unchecked", nm.split("::")[-3] if nm.count("::") >= 2 else nm, "map_unchecked",
                            "%s:%s" % (t["file"], t["line"]), t["exp"])
                site.mapped = t["args"][1]
                out.append(site)
        if t["t"] == "assert":
            k = t["kind"]
            if k in ("misaligned", "nullptr", "invalid_enum", "resumed"):
                continue        # debug-only checks rustc inserts around raw pointer derefs / transmutes
            out.append(Site(fn, bi, "assert", k, "-", "%s:%s" % (t["file"], t["line"]), t["exp"]))
    return out


def reachable_fns(facts, entry_ids, stay_in=None):
    """workspace functions reachable from the entries (resolved calls + default bodies + impls of unresolved
    workspace-trait calls + closures)"""
    edges = callgraph.build(facts, link_unresolved=True, skip_std_unresolved=True)
    seen = set()
    st = list(entry_ids)
    while st:
        f = st.pop()
        if f in seen or f not in facts.fns:
            continue
        if stay_in and not stay_in(facts.fns[f]):
            continue
        seen.add(f)
        for callee, t, bi in edges.get(f, ()):
            st.append(callee)
    return seen


def accessor_guarded(fn, site, t):
    """`x.iri().unwrap()` etc. dominated by the arm of `match y.kind()` for the matching kind, with x and y the same
    value; or by a true edge of `x.is_iri()`..."""
    o = fn.origin(t["args"][0])
    if o[0] != "call":
        return None
    m = re.search(r"Term(?:>)?::(iri|bnode_id|lexical_form|datatype|triple|to_triple|variable)$", o[1]["f"].get("name") or "")
    if not m:
        return None
    want = ACCESSOR_KIND[m.group(1)]
    recv = provenance(fn, o[1]["args"][0], transparent=TRANSPARENT + (r"Term>?::borrow_term$",))
    for cand in sorted(fn.dominators().get(site.bi, ())):
        tt = fn.blocks[cand]["t"]
        if tt["t"] != "switch":
            continue
        var = tt.get("variants")
        if var and var["enum"].endswith("term::TermKind"):
            oo = fn.origin(tt["on"])
            if oo[0] == "rvalue" and oo[1][0] == "discr":
                sd = fn.single_def(oo[1][1][0])
                if sd and sd[2][0] == "call" and call_name_matches(sd[2][1], r"Term>?::kind$"):
                    krecv = provenance(fn, sd[2][1]["args"][0], transparent=TRANSPARENT + (r"Term>?::borrow_term$",))
                    if krecv[-1] == recv[-1] or (krecv[-1][0] == "param" and recv[-1][0] == "param" and krecv[-1][1] == recv[-1][1]):
                        for v, tb in tt["vals"]:
                            if var["names"].get(v) == want and edge_dominates(fn, (cand, tb), site.bi):
                                return "guarded by the %s arm of match kind()" % want
        bs = bool_switch(fn, cand)
        if bs and bs[0][0] == "call":
            nm = bs[0][1]["f"].get("name") or ""
            mm = re.search(r"Term(?:>)?::is_(iri|blank_node|literal|triple|variable)$", nm)
            if mm:
                kk = {"iri": "Iri", "blank_node": "BlankNode", "literal": "Literal", "triple": "Triple", "variable": "Variable"}[mm.group(1)]
                if kk == want and edge_dominates(fn, (cand, bs[1]), site.bi):
                    return "guarded by is_%s()" % mm.group(1)
    return None


def always_some(fn):
    """every normal return of fn is preceded by `_0 = Some(..)` / `Ok(..)` (single-block or all-paths)"""
    rets = fn.ret_blocks()
    if not rets:
        return False
    somes = [bi for bi, b in enumerate(fn.blocks) for s in b["s"]
             if s[0] == "=" and s[1] == [0] and s[2][0] == "agg" and s[2][1].get("vname") in ("Some", "Ok")]
    others = [bi for bi, b in enumerate(fn.blocks) if not b.get("cleanup") for s in b["s"]
              if s[0] == "=" and s[1] == [0] and not (s[2][0] == "agg" and s[2][1].get("vname") in ("Some", "Ok"))]
    calls_to_0 = [bi for bi, t in fn.calls() if t["dest"] == [0]]
    return bool(somes) and not others and not calls_to_0


def const_index_guarded(fn, site, t, k):
    """`v[k]` dominated by the true edge of `v.len() == n` (n > k), `v.len() > n` (n >= k) or `v.len() >= n` (n > k)"""
    recv = provenance(fn, t["args"][0])[-1]
    for cand in sorted(fn.dominators().get(site.bi, ())):
        bs = bool_switch(fn, cand)
        if not bs or bs[0][0] != "rvalue" or bs[0][1][0] != "bin":
            continue
        op, a, b = bs[0][1][1], bs[0][1][2], bs[0][1][3]
        oa, ob = fn.origin(a), fn.origin(b)
        if oa[0] == "call" and call_name_matches(oa[1], r"::len$") and ob[0] == "const" and ob[1].get("kind") == "int":
            n = int(ob[1]["v"])
            lrecv = provenance(fn, oa[1]["args"][0])[-1]
            if lrecv != recv and not (lrecv[0] == "param" and recv[0] == "param" and lrecv[1:] == recv[1:]):
                continue
            good = (op == "Eq" and n > k) or (op == "Gt" and n >= k) or (op == "Ge" and n > k)
            if good and edge_dominates(fn, (cand, bs[1]), site.bi):
                return "constant index %d on the true edge of len() %s %d" % (k, {"Eq": "==", "Gt": ">", "Ge": ">="}[op], n)
            # the negated forms, taken on their false edge: `len() != n || ..v[k]`, `if len() < n { return }`
            goodn = (op == "Ne" and n > k) or (op == "Le" and n >= k) or (op == "Lt" and n > k)
            if goodn and edge_dominates(fn, (cand, bs[2]), site.bi):
                return "constant index %d on the false edge of len() %s %d" % (k, {"Ne": "!=", "Le": "<=", "Lt": "<"}[op], n)
    return None


def str_index_guarded(fn, site, t):
    """`&s[x.len()..]` dominated by the true edge of `s.starts_with(x)`"""
    if len(t["args"]) < 2:
        return None
    rng = fn.origin(t["args"][1])
    if not (rng[0] == "agg" and rng[1].get("vname") == "RangeFrom"):
        return None
    start = fn.origin(rng[2][0])
    if not (start[0] == "call" and call_name_matches(start[1], r"str>::len$")):
        return None
    x = provenance(fn, start[1]["args"][0])[-1]
    sv = provenance(fn, t["args"][0])[-1]
    for cand in sorted(fn.dominators().get(site.bi, ())):
        bs = bool_switch(fn, cand)
        if bs and bs[0][0] == "call" and call_name_matches(bs[0][1], r"str>::starts_with$"):
            a0 = provenance(fn, bs[0][1]["args"][0])[-1]
            a1 = provenance(fn, bs[0][1]["args"][1])[-1]
            same = lambda p, q: p == q or (p[0] == "call" and q[0] == "call" and p[1] is q[1])
            if same(a0, sv) and same(a1, x) and edge_dominates(fn, (cand, bs[1]), site.bi):
                return "slice at x.len() on the true edge of s.starts_with(x)"
    return None


def root_local_ty(fn, operand):
    """type of the local an operand ultimately refers to (through plain refs / reborrows / moves)"""
    cur = operand
    for _ in range(8):
        if cur[0] == "k":
            return None
        place = cur[1]
        sd = fn.single_def(place[0])
        if 1 <= place[0] <= fn.argc or sd is None:
            return fn.locals[place[0]]["ty"]
        rv = sd[2]
        if rv[0] == "ref" or rv[0] == "rawptr":
            cur = ["c", rv[2]]
        elif rv[0] == "use" and rv[1][0] != "k":
            cur = rv[1]
        else:
            return fn.locals[place[0]]["ty"]
    return None


def classify(facts, sites, table, validators=(), regex_ok=True):
    """sets site.status in {auto, validator, audited, unaudited}.  `table`: {key: (max_count, reason)}.
    `validators`: regexes on the asserted expression that are discharged by a language obligation."""
    counts = {}
    table = norm_table(table)
    for s in sites:
        fn = s.fn
        t = fn.blocks[s.bi]["t"]
        s.status = "unaudited"
        if s.kind == "unwrap":
            g = accessor_guarded(fn, s, t)
            if g:
                s.status, s.reason = "auto", g
                continue
            o = fn.origin(t["args"][0])
            if o[0] == "call" and call_name_matches(o[1], r"fmt::Write>?::write_fmt$|fmt::Write>?::write_str$|fmt::Write>?::write_char$") and o[1]["args"] \
                    and o[1]["args"][0][0] != "k":
                r0 = root_local_ty(fn, o[1]["args"][0])
                if r0 and re.match(r"^(&mut )*(std::string::String|alloc::string::String)$", r0):
                    s.status, s.reason = "auto", "fmt::Write for String never fails (`write!` into a String)"
                    continue
            if o[0] == "call" and call_name_matches(o[1], r"^regex::Regex(Set)?::new$|regex::Regex::new$|regex::RegexSet::new$"):
                s.status, s.reason = "auto", "Regex::new(<constant>) — the constant is compiled by E2 on every run"
                continue
        if s.kind == "panic-call" and s.what in ("debug_assert", "assert"):
            for v in validators:
                if re.search(v, s.detail):
                    s.status, s.reason = "validator", "assertion that a validator accepts back-end data: discharged by L8.1 (%s)" % s.detail
                    break
            if s.status != "unaudited":
                continue
        if s.kind == "unwrap" and s.status == "unaudited":
            o = fn.origin(t["args"][0])
            if o[0] == "call":
                callee = facts.fns.get(o[1]["f"].get("res") or "")
                if callee is not None and always_some(callee):
                    s.status, s.reason = "auto", "callee %s returns Some/Ok on every path" % callee.name
                    continue
        if s.kind == "index" and s.status == "unaudited" and len(t["args"]) > 1:
            ro = fn.origin(t["args"][1])
            if ro[0] == "agg" and ro[1].get("vname") == "RangeFull":
                s.status, s.reason = "auto", "full-range slice `[..]` cannot be out of bounds"
                continue
        if s.kind == "index" and s.status == "unaudited" and s.detail.startswith("const:"):
            g = const_index_guarded(fn, s, t, int(s.detail[6:]))
            if g:
                s.status, s.reason = "auto", g
                continue
        if s.kind == "index" and s.status == "unaudited":
            g = str_index_guarded(fn, s, t)
            if g:
                s.status, s.reason = "auto", g
                continue
        if s.kind == "assert" and s.what == "bounds":
            o = fn.origin(t["cond"])
            if o[0] == "rvalue" and o[1][0] == "bin" and o[1][1] == "Lt":
                oa, ob = fn.origin(o[1][2]), fn.origin(o[1][3])
                a = int(oa[1].get("v", "1")) if oa[0] == "const" and oa[1].get("kind") == "int" else None
                b = int(ob[1].get("v", "0")) if ob[0] == "const" and ob[1].get("kind") == "int" else None
                if a is not None and b is not None and a < b:
                    s.status, s.reason = "auto", "constant index %d into a fixed-size array of %d" % (a, b)
                    continue
        if s.kind == "panic-call" and s.what == "unimplemented" and re.search(r"^term::Term::(iri|bnode_id|lexical_form|datatype|language_tag|variable|triple|to_triple)::\{closure#0\}$", fn.name):
            s.status, s.reason = "r8.5", "default accessor: unreachable if every impl overrides the accessors of its kinds (R8.5)"
            continue
        counts[s.key] = counts.get(s.key, 0) + 1
        ent = table.get(s.key)
        if ent is not None and counts[s.key] <= ent[0]:
            s.status, s.reason = "audited", ent[1]
    return sites


def controls(ck, rule):
    """positive / negative controls of the audit on the fixture crate: an unguarded unwrap, map index, str slice and
    panic macro must come out `unaudited`; the guarded twins must be auto-discharged or have no site at all"""
    import core
    fx = core.fixture_facts()
    for name, expect in (("pos_unwrap_unaudited", True), ("pos_index_unaudited", True), ("pos_slice_unaudited", True),
                         ("pos_explicit_panic", True), ("neg_slice_after_starts_with", False), ("neg_no_panic", False)):
        fn = core.fixture_fn(name)
        sites = classify(fx, sites_of(fn), {})
        armed = [s for s in sites if s.status == "unaudited" and not (s.kind == "assert" and s.what.startswith("overflow"))]
        ck.control(rule, name, bool(armed), expect, note=", ".join(s.key for s in armed)[:160])
