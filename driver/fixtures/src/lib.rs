//! Positive (and negative) controls for the detectors of /verif/rules.
//!
//! This crate is compiled with the same fact driver as /repo on every run.  Each `pos_*` item exhibits, once, the
//! construct a zero-expected rule looks for: the rule's detector must fire on it (otherwise the check fails closed:
//! a detector that matches nothing passes vacuously for ever).  Each `neg_*` item is the repaired twin the detector
//! must stay silent on.  Nothing here is ever executed.
#![allow(dead_code, unused_variables, clippy::all)]

use std::collections::{BTreeMap, HashMap};
use std::path::{Component, Path, PathBuf};

// ---------------------------------------------------------------- A.2 dropped Result (C15 R15.1, C18 R18.1)
fn fallible(x: u32) -> Result<u32, String> {
    if x > 3 { Err("too big".into()) } else { Ok(x) }
}
pub fn pos_drop_ok(x: u32) -> Option<u32> {
    fallible(x).ok()
}
pub fn pos_drop_unused(x: u32) -> u32 {
    let _ = fallible(x);
    x
}
/// R15.1: a Result dropped on a path that goes on to report success
pub fn pos_drop_unused_then_ok(x: u32) -> Result<u32, String> {
    let first = fallible(x)?;
    let _ = fallible(first);
    Ok(first)
}
/// R15.1: clean-up on an error path (the first error is the one reported)
pub fn neg_drop_on_error_path(x: u32) -> Result<u32, String> {
    match fallible(x) {
        Ok(v) => Ok(v),
        Err(e) => {
            let _ = fallible(0);
            Err(e)
        }
    }
}
pub fn pos_drop_is_ok(x: u32) -> bool {
    fallible(x).is_ok()
}
pub fn pos_drop_on_early_return(x: u32, quick: bool) -> Result<u32, String> {
    let r = fallible(x);
    if quick {
        return Ok(0);
    }
    r
}
pub fn neg_propagate(x: u32) -> Result<u32, String> {
    let y = fallible(x)?;
    fallible(y).map(|v| v + 1)
}
pub fn neg_match_err(x: u32) -> Result<u32, String> {
    match fallible(x) {
        Ok(v) => Ok(v),
        Err(e) => Err(e),
    }
}

// ---------------------------------------------------------------- A.3 recursion patterns (C16 R16.1 / R16.2)
pub struct Skipper {
    pub items: Vec<u32>,
    pub pos: usize,
}
impl Skipper {
    /// P1: recursion used as a loop (`return self.next_even()` after consuming).
    pub fn pos_next_even(&mut self) -> Option<u32> {
        let v = *self.items.get(self.pos)?;
        self.pos += 1;
        if v % 2 == 0 { Some(v) } else { self.pos_next_even() }
    }
    pub fn neg_next_even(&mut self) -> Option<u32> {
        loop {
            let v = *self.items.get(self.pos)?;
            self.pos += 1;
            if v % 2 == 0 {
                return Some(v);
            }
        }
    }
}
/// P2: self call on a suffix of its own slice parameter.
pub fn pos_count_escapes(txt: &str) -> usize {
    match txt.find('\\') {
        Some(i) => 1 + pos_count_escapes(&txt[i + 1..]),
        None => 0,
    }
}
pub enum Tree {
    Leaf(u32),
    Node(Box<Tree>, Box<Tree>),
}
/// an (unclassified) cycle that is bounded by nesting: R16.1 must report it as "not in the table", R16.2 must not fire.
pub fn pos_unclassified_depth(t: &Tree) -> usize {
    match t {
        Tree::Leaf(_) => 1,
        Tree::Node(a, b) => 1 + pos_unclassified_depth(a).max(pos_unclassified_depth(b)),
    }
}

// ---------------------------------------------------------------- R5.3 hash-ordered containers
pub fn pos_hash_iteration(m: &HashMap<String, u32>) -> Vec<String> {
    m.keys().cloned().collect()
}
pub fn neg_ordered_iteration(m: &BTreeMap<String, u32>) -> Vec<String> {
    m.keys().cloned().collect()
}

// ---------------------------------------------------------------- R19.1 confinement taint rule
pub struct FakeIri<T>(pub T);
impl<T: AsRef<str>> FakeIri<T> {
    pub fn as_str(&self) -> &str {
        self.0.as_ref()
    }
}
pub fn pos_open_unchecked(dir: &Path, iri: FakeIri<&str>) -> std::io::Result<Vec<u8>> {
    let sub = &iri.as_str()[7..];
    std::fs::read(dir.join(sub))
}
pub fn neg_open_checked(dir: &Path, iri: FakeIri<&str>) -> std::io::Result<Vec<u8>> {
    let sub = &iri.as_str()[7..];
    if !Path::new(sub).components().all(|c| matches!(c, Component::Normal(_))) {
        return Err(std::io::Error::new(std::io::ErrorKind::NotFound, "outside"));
    }
    std::fs::read(dir.join(sub))
}
/// the check is there but its verdict is ignored on one path
pub fn pos_open_check_not_dominating(dir: &Path, iri: FakeIri<&str>, lenient: bool) -> std::io::Result<Vec<u8>> {
    let sub = &iri.as_str()[7..];
    if !lenient && !Path::new(sub).components().all(|c| matches!(c, Component::Normal(_))) {
        return Err(std::io::Error::new(std::io::ErrorKind::NotFound, "outside"));
    }
    std::fs::read(dir.join(sub))
}
/// the closure admits more than `Normal`
pub fn pos_open_weak_check(dir: &Path, iri: FakeIri<&str>) -> std::io::Result<Vec<u8>> {
    let sub = &iri.as_str()[7..];
    if !Path::new(sub).components().all(|c| matches!(c, Component::Normal(_) | Component::ParentDir)) {
        return Err(std::io::Error::new(std::io::ErrorKind::NotFound, "outside"));
    }
    std::fs::read(dir.join(sub))
}
pub fn neg_open_constant(dir: &Path) -> std::io::Result<Vec<u8>> {
    let p: PathBuf = dir.join("index.ttl");
    std::fs::read(p)
}

// ---------------------------------------------------------------- R10.1 / R10.2(a) laundered borrow + derived Clone
#[derive(Clone)]
pub struct PosLaundering {
    owner: HashMap<String, usize>,
    borrowers: Vec<&'static String>,
}
impl PosLaundering {
    pub fn intern(&mut self, s: String) -> usize {
        match self.owner.entry(s) {
            std::collections::hash_map::Entry::Vacant(e) => {
                let i = self.borrowers.len();
                let key: &String = e.key();
                // (control only) pretends the key lives as long as the struct
                let laundered: &'static String = unsafe { std::mem::transmute::<&String, &'static String>(key) };
                self.borrowers.push(laundered);
                e.insert(i);
                i
            }
            std::collections::hash_map::Entry::Occupied(e) => *e.get(),
        }
    }
}
/// the repaired twin: Clone rebuilds the borrowers from its own owner
pub struct NegLaundering {
    owner: HashMap<String, usize>,
    borrowers: Vec<&'static String>,
}
impl NegLaundering {
    pub fn intern(&mut self, s: String) -> usize {
        match self.owner.entry(s) {
            std::collections::hash_map::Entry::Vacant(e) => {
                let i = self.borrowers.len();
                let key: &String = e.key();
                let laundered: &'static String = unsafe { std::mem::transmute::<&String, &'static String>(key) };
                self.borrowers.push(laundered);
                e.insert(i);
                i
            }
            std::collections::hash_map::Entry::Occupied(e) => *e.get(),
        }
    }
}
impl Clone for NegLaundering {
    fn clone(&self) -> Self {
        let mut n = NegLaundering { owner: HashMap::new(), borrowers: Vec::new() };
        for b in &self.borrowers {
            n.intern(String::clone(b));
        }
        n
    }
}

// ---------------------------------------------------------------- R8.2 panic audit
pub fn pos_unwrap_unaudited(x: Option<u8>) -> u8 {
    x.unwrap()
}
pub fn pos_index_unaudited(m: &HashMap<String, u8>, k: &str) -> u8 {
    m[k]
}
pub fn pos_slice_unaudited(s: &str) -> &str {
    &s[..2]
}
pub fn pos_explicit_panic(x: u8) -> u8 {
    if x > 3 {
        unimplemented!()
    }
    x
}
pub fn neg_slice_after_starts_with<'a>(s: &'a str, ns: &str) -> &'a str {
    if s.starts_with(ns) { &s[ns.len()..] } else { s }
}
pub fn neg_no_panic(x: Option<u8>) -> u8 {
    x.unwrap_or(0)
}

// ---------------------------------------------------------------- R13.1 catch-all arm in a dispatch
pub enum Algebra {
    Bgp,
    Join,
    Minus,
    Service,
}
pub fn pos_dispatch_with_catch_all(a: &Algebra) -> Result<u8, String> {
    match a {
        Algebra::Bgp => Ok(1),
        Algebra::Join => Ok(2),
        _ => Err("not implemented".into()),
    }
}
pub fn neg_dispatch_explicit(a: &Algebra) -> Result<u8, String> {
    match a {
        Algebra::Bgp => Ok(1),
        Algebra::Join => Ok(2),
        Algebra::Minus => Err("not implemented: MINUS".into()),
        Algebra::Service => Err("not implemented: SERVICE".into()),
    }
}

// ---------------------------------------------------------------- R15.7 FIFO buffers of items
pub struct Buffered {
    pub buffer: std::collections::VecDeque<Result<u32, String>>,
    pub stack: Vec<Result<u32, String>>,
}
impl Buffered {
    pub fn neg_fifo_next(&mut self, incoming: &[u32]) -> Option<Result<u32, String>> {
        for i in incoming {
            self.buffer.push_back(fallible(*i));
        }
        self.buffer.pop_front()
    }
    /// last-in-first-out: items of one step come out reversed, a trailing error overtakes them
    pub fn pos_lifo_next(&mut self, incoming: &[u32]) -> Option<Result<u32, String>> {
        for i in incoming {
            self.stack.push(fallible(*i));
        }
        self.stack.pop()
    }
}

// ---------------------------------------------------------------- R3.4 a writer that refuses some inputs
pub fn pos_refusing_writer<W: std::io::Write>(w: &mut W, tag: &str) -> std::io::Result<()> {
    if !tag.bytes().all(|b| b.is_ascii_alphabetic()) {
        return Err(std::io::Error::new(std::io::ErrorKind::InvalidInput, format!("tag '{tag}' refused")));
    }
    w.write_all(tag.as_bytes())
}
pub fn neg_rewrapping_writer<W: std::io::Write>(w: &mut W, tag: &str) -> std::io::Result<()> {
    w.write_all(tag.as_bytes()).map_err(|e| std::io::Error::new(std::io::ErrorKind::Other, e))
}

// ---------------------------------------------------------------- R1.8 who may write the index sets
pub struct TwoIndexes {
    pub spo: std::collections::BTreeSet<[u32; 3]>,
    pub pos: std::collections::BTreeSet<[u32; 3]>,
}
impl TwoIndexes {
    /// a "bulk load" that fills one index first: the other is left behind if the loop stops early
    pub fn pos_bulk_load(&mut self, items: &[[u32; 3]]) -> Result<usize, String> {
        let mut n = 0;
        for [s, p, o] in items {
            fallible(*s)?;
            if self.spo.insert([*s, *p, *o]) {
                n += 1;
            }
        }
        for [s, p, o] in items {
            self.pos.insert([*p, *o, *s]);
        }
        Ok(n)
    }
    pub fn neg_read_only(&self, k: &[u32; 3]) -> bool {
        self.spo.contains(k) && self.pos.len() == self.spo.len()
    }
}

// ---------------------------------------------------------------- R7.7 shrinking a vector whose equality is coarser than identity
pub struct BlindTerm(pub String);
pub fn pos_dedup_blind(v: &mut Vec<BlindTerm>) {
    v.dedup_by(|a, b| a.0.len() == b.0.len());
}
pub fn neg_sort_blind(v: &mut Vec<BlindTerm>) {
    v.sort_by(|a, b| a.0.len().cmp(&b.0.len()));
}

// ---------------------------------------------------------------- R15.8 io::Write::write with the byte count ignored
pub fn pos_partial_write<W: std::io::Write>(w: &mut W, txt: &str) -> std::io::Result<()> {
    w.write(txt.as_bytes())?;
    Ok(())
}
pub fn neg_write_all<W: std::io::Write>(w: &mut W, txt: &str) -> std::io::Result<()> {
    w.write_all(txt.as_bytes())
}
pub fn neg_write_loop<W: std::io::Write>(w: &mut W, txt: &str) -> std::io::Result<()> {
    let mut rest = txt.as_bytes();
    while !rest.is_empty() {
        let n = w.write(rest)?;
        rest = &rest[n..];
    }
    Ok(())
}

// ---------------------------------------------------------------- R16.2 P3: an iterator re-wrapped in a loop
pub fn pos_nested_chain<'a>(parts: &'a [Vec<u32>]) -> Box<dyn Iterator<Item = u32> + 'a> {
    let mut all: Box<dyn Iterator<Item = u32> + 'a> = Box::new(std::iter::empty());
    for p in parts {
        all = Box::new(all.chain(p.iter().copied()));
    }
    all
}
pub fn neg_flat_chain<'a>(parts: &'a [Vec<u32>]) -> Box<dyn Iterator<Item = u32> + 'a> {
    let mut iters = vec![];
    for p in parts {
        iters.push(p.iter().copied());
    }
    Box::new(iters.into_iter().flatten())
}

// ---------------------------------------------------------------- R1.9 flags of list-backed collections
pub struct ListStore(pub Vec<u32>);
impl ListStore {
    /// removes every occurrence but always answers `true`
    pub fn pos_remove_constant_flag(&mut self, x: u32) -> Result<bool, String> {
        let mut i = 0;
        while i < self.0.len() {
            if self.0[i] == x {
                self.0.swap_remove(i);
            } else {
                i += 1;
            }
        }
        Ok(true)
    }
    /// honest flag, but only the first occurrence goes
    pub fn pos_remove_first_only(&mut self, x: u32) -> Result<bool, String> {
        match self.0.iter().position(|y| *y == x) {
            None => Ok(false),
            Some(i) => {
                self.0.swap_remove(i);
                Ok(true)
            }
        }
    }
    /// removes, then reports `false`
    pub fn pos_remove_unreported(&mut self, x: u32) -> Result<bool, String> {
        let mut removed = false;
        let mut i = 0;
        while i < self.0.len() {
            if self.0[i] == x {
                removed = true;
                self.0.swap_remove(i);
                removed = false;
            } else {
                i += 1;
            }
        }
        Ok(removed)
    }
    pub fn neg_remove_all(&mut self, x: u32) -> Result<bool, String> {
        let mut removed = false;
        let mut i = 0;
        while i < self.0.len() {
            if self.0[i] == x {
                self.0.swap_remove(i);
                removed = true;
            } else {
                i += 1;
            }
        }
        Ok(removed)
    }
    pub fn neg_remove_retain(&mut self, x: u32) -> Result<bool, String> {
        let before = self.0.len();
        self.0.retain(|y| *y != x);
        Ok(self.0.len() != before)
    }
    pub fn neg_insert_push(&mut self, x: u32) -> Result<bool, String> {
        self.0.push(x);
        Ok(true)
    }
    pub fn pos_insert_silent(&mut self, x: u32) -> Result<bool, String> {
        if self.0.contains(&x) {
            return Ok(true);
        }
        self.0.push(x);
        Ok(true)
    }
}

// ---------------------------------------------------------------- R8.5 accessors that never return
pub fn pos_always_panics(_x: &u32) -> Option<[u32; 3]> {
    unimplemented!()
}
pub fn neg_panics_for_one_kind(x: &u32) -> Option<[u32; 3]> {
    (*x == 3).then(|| unimplemented!("only quoted triples"))
}

// ---------------------------------------------------------------- R6.8 one reference per node and item
pub fn pos_refs_per_occurrence<'a>(m: &mut std::collections::BTreeMap<u32, Vec<&'a [u32; 3]>>, q: &'a [u32; 3]) {
    for c in q {
        m.entry(*c).or_default().push(q);
    }
}
pub fn neg_refs_once<'a>(m: &mut std::collections::BTreeMap<u32, Vec<&'a [u32; 3]>>, q: &'a [u32; 3]) {
    for c in q {
        let refs = m.entry(*c).or_default();
        if !refs.last().is_some_and(|last| std::ptr::eq(*last, q)) {
            refs.push(q);
        }
    }
}
pub fn neg_refs_contains<'a>(m: &mut std::collections::BTreeMap<u32, Vec<&'a [u32; 3]>>, q: &'a [u32; 3]) {
    for c in q {
        let refs = m.entry(*c).or_default();
        if refs.iter().any(|x| std::ptr::eq(*x, q)) {
            continue;
        }
        refs.push(q);
    }
}

// ---------------------------------------------------------------- R9.8 a result buffer handed to an appending callee
pub fn append_into(what: &str, buf: &mut String) -> Result<(), String> {
    buf.push_str(what);
    Ok(())
}
pub fn pos_result_is_whole_buffer<'a>(what: &str, buf: &'a mut String) -> Result<&'a str, String> {
    append_into(what, buf).map(|()| &buf[..])
}
pub fn neg_buffer_cleared_first<'a>(what: &str, buf: &'a mut String) -> Result<&'a str, String> {
    buf.clear();
    append_into(what, buf).map(|()| &buf[..])
}

// ---------------------------------------------------------------- R7.8 a fixpoint loop with / without a bounded counter
pub fn pos_unbounded_fixpoint(mut x: u64) -> u64 {
    let mut old = 0;
    loop {
        x = step(x);
        if x == old {
            break;
        }
        old = x;
    }
    x
}
pub fn neg_bounded_fixpoint(mut x: u64, n: usize) -> u64 {
    let mut old = 0;
    let mut remaining = n + 1;
    loop {
        x = step(x);
        if x == old {
            break;
        }
        old = x;
        remaining -= 1;
        if remaining == 0 {
            break;
        }
    }
    x
}
pub fn step(x: u64) -> u64 {
    x / 2
}

// ---------------------------------------------------------------- R13.15 overflowing operations on native integers
pub fn pos_neg_of_native_int(x: &isize) -> isize {
    -x
}
pub fn neg_checked_neg(x: &isize) -> Option<isize> {
    x.checked_neg()
}

// ---------------------------------------------------------------- R15.9 / R15.10 re-wrapped sink errors, mandatory size hints
pub fn pos_rewrapped_io_error<W: std::io::Write>(w: &mut W) -> std::io::Result<()> {
    w.write_all(b".\n").map_err(|e| std::io::Error::new(std::io::ErrorKind::Other, e))
}
pub fn neg_io_error_from_message<W: std::io::Write>(w: &mut W, ok: bool) -> std::io::Result<()> {
    if !ok {
        return Err(std::io::Error::new(std::io::ErrorKind::InvalidData, "not representable"));
    }
    w.write_all(b".\n")
}
pub fn pos_capacity_from_hint<I: Iterator<Item = u32>>(it: I) -> Vec<u32> {
    let mut v = Vec::with_capacity(it.size_hint().0);
    v.extend(it);
    v
}
pub fn neg_try_reserve_from_hint<I: Iterator<Item = u32>>(it: I) -> Vec<u32> {
    let mut v = Vec::new();
    let _ = v.try_reserve(it.size_hint().0);
    v.extend(it);
    v
}

// ---------------------------------------------------------------- R10.5 unchecked operations
pub fn pos_unwrap_unchecked(x: Option<u32>) -> u32 {
    debug_assert!(x.is_some());
    unsafe { x.unwrap_unchecked() }
}
pub fn neg_checked_expect(x: Option<u32>) -> u32 {
    x.expect("contract")
}

// ---------------------------------------------------------------- R6.11 a consumed writer is flushed; R12.11 field-wise rebuild
pub fn pos_consumed_writer_not_flushed<W: std::io::Write>(mut w: W, lines: &[&str]) -> std::io::Result<()> {
    for l in lines {
        w.write_all(l.as_bytes())?;
    }
    Ok(())
}
pub fn neg_consumed_writer_flushed<W: std::io::Write>(mut w: W, lines: &[&str]) -> std::io::Result<()> {
    for l in lines {
        w.write_all(l.as_bytes())?;
    }
    w.flush()?;
    Ok(())
}
pub struct Opts<L> {
    pub loader: L,
    pub native: bool,
    pub rdf_type: bool,
    pub spaces: u16,
}
impl<L> Opts<L> {
    pub fn pos_with_loader_crossed<M>(self, loader: M) -> Opts<M> {
        Opts { loader, native: self.native, rdf_type: self.native, spaces: self.spaces }
    }
    pub fn neg_with_loader<M>(self, loader: M) -> Opts<M> {
        Opts { loader, native: self.native, rdf_type: self.rdf_type, spaces: self.spaces }
    }
}

// ---------------------------------------------------------------- R15.12 an iterator over a fallible source that does not re-poll it
pub struct Polling<I> {
    pub src: I,
    pub done: bool,
}
impl<I: Iterator<Item = Result<u32, String>>> Polling<I> {
    pub fn pos_repoll(&mut self) -> Option<Result<u32, String>> {
        self.src.next()
    }
    /// R15.11: the hint of a source that will not be polled again is still announced
    pub fn pos_stale_hint(&self) -> (usize, Option<usize>) {
        self.src.size_hint()
    }
    pub fn neg_hint_while_live(&self) -> (usize, Option<usize>) {
        if self.done {
            return (0, Some(0));
        }
        self.src.size_hint()
    }
    pub fn neg_fused(&mut self) -> Option<Result<u32, String>> {
        if self.done {
            return None;
        }
        let r = self.src.next();
        if !matches!(r, Some(Ok(_))) {
            self.done = true;
        }
        r
    }
}

// ---- C08 R8.2 (map_unchecked), R8.9 / R8.10 (a value is used only after its check succeeded)
pub struct Wrapped<T>(pub T);
impl<T> Wrapped<T> {
    pub fn map_unchecked<U, F: FnOnce(T) -> U>(self, f: F) -> Wrapped<U> {
        Wrapped(f(self.0))
    }
}
/// positive: the closure ignores the wrapped (validated) value and wraps another string
pub fn pos_map_replaces_wrapped(w: Wrapped<&'static str>, other: &str) -> Wrapped<String> {
    w.map_unchecked(|_| other.to_string())
}
/// negative: the closure converts the wrapped value
pub fn neg_map_converts_wrapped(w: Wrapped<&'static str>) -> Wrapped<String> {
    w.map_unchecked(|s| s.to_string())
}
/// negative: a conversion item
pub fn neg_map_converts_with_item(w: Wrapped<&'static str>) -> Wrapped<String> {
    w.map_unchecked(String::from)
}
#[inline(never)]
pub fn checked_token(s: &str) -> Result<u8, ()> {
    s.bytes().next().ok_or(())
}
#[inline(never)]
pub fn consume_token(s: &str) -> usize {
    s.len()
}
/// positive: the failure of the check does not keep the value from being used
pub fn pos_used_after_failed_check(s: &str) -> usize {
    if checked_token(s).is_err() {
        std::hint::black_box(0);
    }
    consume_token(s)
}
/// negative: early return on failure (`is_err` form)
pub fn neg_refused_after_failed_check(s: &str) -> Option<usize> {
    if checked_token(s).is_err() {
        return None;
    }
    Some(consume_token(s))
}
/// negative: `match` form
pub fn neg_refused_with_match(s: &str) -> Option<usize> {
    match checked_token(s) {
        Ok(_) => Some(consume_token(s)),
        Err(()) => None,
    }
}
/// negative: `?` form
pub fn neg_refused_with_question_mark(s: &str) -> Result<usize, ()> {
    checked_token(s)?;
    Ok(consume_token(s))
}

// ---------------------------------------------------------------- R15.14 a formatter is finished on every path but a sink error
pub enum FixStreamError {
    Source(String),
    Sink(std::io::Error),
}
pub struct FixFormatter {
    pub open: bool,
}
impl FixFormatter {
    #[inline(never)]
    pub fn finish(&mut self) -> Result<(), std::io::Error> {
        self.open = false;
        Ok(())
    }
}
#[inline(never)]
pub fn feed_formatter(f: &mut FixFormatter, fail: u8) -> Result<(), FixStreamError> {
    f.open = true;
    match fail {
        0 => Ok(()),
        1 => Err(FixStreamError::Source(String::new())),
        _ => Err(FixStreamError::Sink(std::io::Error::other("x"))),
    }
}
/// positive: `?` returns the source error and leaves the last statement open
pub fn pos_unfinished_on_source_error(fail: u8) -> Result<(), FixStreamError> {
    let mut f = FixFormatter { open: false };
    feed_formatter(&mut f, fail)?;
    f.finish().map_err(FixStreamError::Sink)?;
    Ok(())
}
/// negative: finished before the source error is returned; a sink error returns at once
pub fn neg_finished_on_source_error(fail: u8) -> Result<(), FixStreamError> {
    let mut f = FixFormatter { open: false };
    match feed_formatter(&mut f, fail) {
        Ok(()) => f.finish().map_err(FixStreamError::Sink)?,
        Err(FixStreamError::Source(e)) => {
            let _ = f.finish();
            return Err(FixStreamError::Source(e));
        }
        Err(e) => return Err(e),
    }
    Ok(())
}
/// negative: the source error is handled first (`if let`), the `?` that follows can only break with a sink error
pub fn neg_finished_then_question_mark(fail: u8) -> Result<(), FixStreamError> {
    let mut f = FixFormatter { open: false };
    let fed = feed_formatter(&mut f, fail);
    if let Err(FixStreamError::Source(e)) = fed {
        let _ = f.finish();
        return Err(FixStreamError::Source(e));
    }
    fed?;
    f.finish().map_err(FixStreamError::Sink)
}
/// positive: the sink error is handled first, the `?` that follows breaks with the source error and nothing is finished
pub fn pos_question_mark_before_source_test(fail: u8) -> Result<(), FixStreamError> {
    let mut f = FixFormatter { open: false };
    let fed = feed_formatter(&mut f, fail);
    if let Err(FixStreamError::Sink(e)) = fed {
        return Err(FixStreamError::Sink(e));
    }
    fed?;
    f.finish().map_err(FixStreamError::Sink)
}
/// negative: finished whatever happened, then the first error is reported
pub fn neg_finished_before_deciding(fail: u8) -> Result<(), FixStreamError> {
    let mut f = FixFormatter { open: false };
    let fed = feed_formatter(&mut f, fail);
    let finished = f.finish();
    fed?;
    finished.map_err(FixStreamError::Sink)
}

// ---------------------------------------------------------------- R13.24 a function that ignores an argument
pub fn pos_ignores_argument(_label: &str) -> u64 {
    std::hint::black_box(7)
}
pub fn neg_uses_argument(label: &str) -> u64 {
    label.len() as u64
}

// ---------------------------------------------------------------- R15.6 a buffer taken out of self is put back on every path
pub struct Taken {
    pub buffer: Vec<u32>,
    pub n: u32,
}
impl Taken {
    pub fn pos_taken_not_restored(&mut self) -> Option<u32> {
        let mut buffer = std::mem::take(&mut self.buffer);
        if self.n == 0 {
            return buffer.pop();
        }
        buffer.push(self.n);
        self.buffer = buffer;
        self.buffer.pop()
    }
    pub fn neg_taken_and_restored(&mut self) -> Option<u32> {
        let mut buffer = std::mem::take(&mut self.buffer);
        if self.n != 0 {
            buffer.push(self.n);
        }
        self.buffer = buffer;
        self.buffer.pop()
    }
}

// ---------------------------------------------------------------- R16.3 a linked list needs a loop-based Drop
pub enum PosChain {
    End,
    Link(Box<(u32, PosChain)>),
}
pub enum NegChain {
    End,
    Link(Box<(u32, NegChain)>),
}
impl Drop for NegChain {
    fn drop(&mut self) {
        let NegChain::Link(b) = self else {
            return;
        };
        let mut next = std::mem::replace(&mut b.1, NegChain::End);
        while let NegChain::Link(b) = &mut next {
            let tail = std::mem::replace(&mut b.1, NegChain::End);
            next = tail;
        }
    }
}
