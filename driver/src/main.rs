//! E1 — fact extractor.  A `rustc_private` driver used as RUSTC_WORKSPACE_WRAPPER under
//! `cargo +nightly check`.  For every workspace crate it writes ONE json file into $VERIF_FACTS_DIR
//! holding a "MIR-lite" rendering of every function body (resolved callees, constants evaluated,
//! switch tables, asserts), plus item-level facts (ADTs, impls, traits, string constants).
//! All rule logic lives in /verif/rules (python); this program only renders what rustc knows.
#![feature(rustc_private)]
#![allow(unused)]

extern crate rustc_abi;
extern crate rustc_data_structures;
extern crate rustc_driver;
extern crate rustc_hir;
extern crate rustc_interface;
extern crate rustc_middle;
extern crate rustc_session;
extern crate rustc_span;

use rustc_driver::{Callbacks, Compilation};
use rustc_hir::def::DefKind;
use rustc_hir::def_id::{DefId, LocalDefId, LOCAL_CRATE};
use rustc_middle::mir::interpret::{GlobalAlloc, Scalar};
use rustc_middle::mir::*;
use rustc_middle::ty::print::with_no_trimmed_paths;
use rustc_middle::ty::{self, Instance, Ty, TyCtxt, TypingEnv};
use rustc_span::{ExpnKind, Span};
use std::fmt::Write as _;

// ---------------------------------------------------------------- tiny json writer

fn js(s: &str) -> String {
    let mut o = String::with_capacity(s.len() + 2);
    o.push('"');
    for c in s.chars() {
        match c {
            '"' => o.push_str("\\\""),
            '\\' => o.push_str("\\\\"),
            '\n' => o.push_str("\\n"),
            '\r' => o.push_str("\\r"),
            '\t' => o.push_str("\\t"),
            c if (c as u32) < 0x20 => {
                write!(o, "\\u{:04x}", c as u32).unwrap();
            }
            c => o.push(c),
        }
    }
    o.push('"');
    o
}

fn jarr(v: &[String]) -> String {
    let mut o = String::from("[");
    for (i, x) in v.iter().enumerate() {
        if i > 0 {
            o.push(',');
        }
        o.push_str(x);
    }
    o.push(']');
    o
}

fn jobj(v: &[(&str, String)]) -> String {
    let mut o = String::from("{");
    for (i, (k, x)) in v.iter().enumerate() {
        if i > 0 {
            o.push(',');
        }
        o.push_str(&js(k));
        o.push(':');
        o.push_str(x);
    }
    o.push('}');
    o
}

fn jopt(x: Option<String>) -> String {
    x.unwrap_or_else(|| "null".to_string())
}

// ---------------------------------------------------------------- naming

fn did<'tcx>(tcx: TyCtxt<'tcx>, d: DefId) -> String {
    format!("{}{}", tcx.crate_name(d.krate), tcx.def_path(d).to_string_no_crate_verbose())
}

fn pretty<'tcx>(tcx: TyCtxt<'tcx>, d: DefId) -> String {
    with_no_trimmed_paths!(tcx.def_path_str(d))
}

fn tystr<'tcx>(ty: Ty<'tcx>) -> String {
    with_no_trimmed_paths!(format!("{}", ty))
}

fn span_loc<'tcx>(tcx: TyCtxt<'tcx>, sp: Span) -> (String, usize, usize, usize) {
    // location of the *call site in user code* (outermost expansion)
    let sp = sp.source_callsite();
    let sm = tcx.sess.source_map();
    let lo = sm.lookup_char_pos(sp.lo());
    let hi = sm.lookup_char_pos(sp.hi());
    let file = match &lo.file.name {
        rustc_span::FileName::Real(r) => match r.local_path() {
            Some(p) => p.to_string_lossy().to_string(),
            None => format!("{:?}", lo.file.name),
        },
        other => format!("{:?}", other),
    };
    (file, lo.line, lo.col.0 + 1, hi.line)
}

fn expansion_chain(sp: Span) -> Vec<String> {
    let mut v = vec![];
    let mut s = sp;
    let mut guard = 0;
    while s.from_expansion() && guard < 16 {
        let d = s.ctxt().outer_expn_data();
        match d.kind {
            ExpnKind::Macro(_, name) => v.push(name.to_string()),
            ExpnKind::Desugaring(k) => v.push(format!("desugar:{:?}", k)),
            ExpnKind::AstPass(k) => v.push(format!("astpass:{:?}", k)),
            ExpnKind::Root => {}
        }
        s = d.call_site;
        guard += 1;
    }
    v
}

// ---------------------------------------------------------------- constants

fn bytes_json(b: &[u8]) -> String {
    match std::str::from_utf8(b) {
        Ok(s) => js(s),
        Err(_) => {
            let v: Vec<String> = b.iter().map(|x| x.to_string()).collect();
            jarr(&v)
        }
    }
}

/// A promoted constant that is a reference to a field-less enum value (`&TermKind::Iri`, as produced by
/// `x == TermKind::Iri`): read the variant from the promoted body (works in generic functions, where
/// const evaluation is "too generic").
fn promoted_enum<'tcx>(tcx: TyCtxt<'tcx>, def: DefId, idx: Promoted) -> Option<(String, String, String)> {
    if !def.is_local() {
        return None;
    }
    let bodies = tcx.promoted_mir(def);
    let body = bodies.get(idx)?;
    let mut found = None;
    let mut n = 0;
    for bb in body.basic_blocks.iter() {
        for st in &bb.statements {
            if let StatementKind::Assign(b) = &st.kind {
                let (_pl, rv) = &**b;
                if let Rvalue::Aggregate(k, ops) = rv {
                    n += 1;
                    if let AggregateKind::Adt(adt_did, vidx, ..) = **k {
                        let adt = tcx.adt_def(adt_did);
                        if adt.is_enum() && ops.is_empty() {
                            let discr = adt.discriminant_for_variant(tcx, vidx).val;
                            found = Some((did(tcx, adt_did), adt.variant(vidx).name.to_string(), format!("{}", discr)));
                        }
                    }
                }
            }
        }
    }
    if n == 1 { found } else { None }
}

fn const_json<'tcx>(tcx: TyCtxt<'tcx>, env: TypingEnv<'tcx>, c: &ConstOperand<'tcx>) -> String {
    let ty = c.const_.ty();
    let mut fields: Vec<(&str, String)> = vec![("ty", js(&tystr(ty)))];
    if let Const::Unevaluated(u, _) = c.const_ {
        fields.push(("from", js(&did(tcx, u.def))));
        if u.promoted.is_some() {
            fields.push(("promoted", format!("{}", u.promoted.unwrap().as_u32())));
            if let ty::Ref(_, inner, _) = ty.kind() {
                if let ty::Adt(a, _) = inner.kind() {
                    if a.is_enum() {
                        if let Some((e, v, d)) = promoted_enum(tcx, u.def, u.promoted.unwrap()) {
                            fields.push(("kind", js("enumref")));
                            fields.push(("enum", js(&e)));
                            fields.push(("variant", js(&v)));
                            fields.push(("v", js(&d)));
                            fields.push(("dbg", js(&with_no_trimmed_paths!(format!("{}", c.const_)))));
                            return jobj(&fields);
                        }
                    }
                }
            }
        }
    }
    if let ty::FnDef(d, args) = ty.kind() {
        fields.push(("kind", js("fn")));
        fields.push(("def", js(&did(tcx, *d))));
        return jobj(&fields);
    }
    let val = c.const_.eval(tcx, env, c.span);
    match val {
        Ok(ConstValue::ZeroSized) => fields.push(("kind", js("zst"))),
        Ok(ConstValue::Scalar(Scalar::Int(i))) => {
            let sz = i.size();
            let s = match ty.kind() {
                ty::Int(_) => format!("{}", i.to_int(sz)),
                _ => format!("{}", i.to_uint(sz)),
            };
            fields.push(("kind", js("int")));
            fields.push(("v", js(&s)));
        }
        Ok(cv @ ConstValue::Slice { .. }) => {
            let is_slice = match ty.kind() {
                ty::Ref(_, inner, _) => inner.is_str() || matches!(inner.kind(), ty::Slice(t) if *t == tcx.types.u8),
                _ => false,
            };
            if is_slice {
                if let Some(b) = cv.try_get_slice_bytes_for_diagnostics(tcx) {
                    fields.push(("kind", js("str")));
                    fields.push(("v", bytes_json(b)));
                } else {
                    fields.push(("kind", js("other")));
                }
            } else {
                fields.push(("kind", js("other")));
            }
        }
        Ok(ConstValue::Scalar(Scalar::Ptr(p, _))) => {
            // &[u8; N] byte string literals and &&str etc.
            let mut done = false;
            if let ty::Ref(_, inner, _) = ty.kind() {
                if let ty::Array(elem, _n) = inner.kind() {
                    if *elem == tcx.types.u8 {
                        let (prov, off) = p.prov_and_relative_offset();
                        if let GlobalAlloc::Memory(a) = tcx.global_alloc(prov.alloc_id()) {
                            let a = a.inner();
                            let start = off.bytes_usize();
                            let b = a.inspect_with_uninit_and_ptr_outside_interpreter(start..a.len());
                            fields.push(("kind", js("str")));
                            fields.push(("v", bytes_json(b)));
                            done = true;
                        }
                    }
                }
            }
            if !done {
                let (prov, _off) = p.prov_and_relative_offset();
                match tcx.global_alloc(prov.alloc_id()) {
                    GlobalAlloc::Static(sd) => {
                        fields.push(("kind", js("static")));
                        fields.push(("def", js(&did(tcx, sd))));
                    }
                    GlobalAlloc::Function { instance } => {
                        fields.push(("kind", js("fnptr")));
                        fields.push(("def", js(&did(tcx, instance.def_id()))));
                    }
                    _ => fields.push(("kind", js("ptr"))),
                }
            }
        }
        Ok(ConstValue::Indirect { .. }) => {
            let is_slice = match ty.kind() {
                ty::Ref(_, inner, _) => inner.is_str() || matches!(inner.kind(), ty::Slice(t) if *t == tcx.types.u8),
                _ => false,
            };
            let mut done = false;
            if is_slice {
                if let Ok(cv) = val {
                    if let Some(b) = cv.try_get_slice_bytes_for_diagnostics(tcx) {
                        fields.push(("kind", js("str")));
                        fields.push(("v", bytes_json(b)));
                        done = true;
                    }
                }
            }
            if !done {
                fields.push(("kind", js("indirect")));
            }
        }
        Err(_) => fields.push(("kind", js("generic"))),
    }
    fields.push(("dbg", js(&with_no_trimmed_paths!(format!("{}", c.const_)))));
    jobj(&fields)
}

fn static_str<'tcx>(tcx: TyCtxt<'tcx>, d: DefId) -> Option<&'tcx [u8]> {
    use rustc_middle::mir::interpret::alloc_range;
    let alloc = tcx.eval_static_initializer(d).ok()?;
    let a = alloc.inner();
    let ptr_size = tcx.data_layout.pointer_size();
    if a.size() < ptr_size * 2 {
        return None;
    }
    let ptr = a.read_scalar(&tcx, alloc_range(rustc_abi::Size::ZERO, ptr_size), true).ok()?;
    let ptr = ptr.to_pointer(&tcx).discard_err()?;
    let len = a.read_scalar(&tcx, alloc_range(ptr_size, ptr_size), false).ok()?;
    let len = len.to_target_usize(&tcx).discard_err()?;
    if len == 0 {
        return Some(&[]);
    }
    let (prov, off) = ptr.into_pointer_or_addr().ok()?.prov_and_relative_offset();
    let data = tcx.global_alloc(prov.alloc_id()).unwrap_memory();
    let start = off.bytes() as usize;
    Some(data.inner().inspect_with_uninit_and_ptr_outside_interpreter(start..start + len as usize))
}

// ---------------------------------------------------------------- MIR rendering

struct Cx<'a, 'tcx> {
    tcx: TyCtxt<'tcx>,
    body: &'a Body<'tcx>,
    env: TypingEnv<'tcx>,
}

impl<'a, 'tcx> Cx<'a, 'tcx> {
    fn place(&self, p: &Place<'tcx>) -> String {
        let mut v = vec![format!("{}", p.local.as_u32())];
        for (base, elem) in p.iter_projections() {
            let s = match elem {
                ProjectionElem::Deref => "*".to_string(),
                ProjectionElem::Field(f, _) => {
                    let bt = base.ty(self.body, self.tcx);
                    let mut name = String::new();
                    if let ty::Adt(adt, _) = bt.ty.kind() {
                        let vi = bt.variant_index.unwrap_or(rustc_abi::FIRST_VARIANT);
                        if adt.is_enum() || adt.is_struct() || adt.is_union() {
                            if vi.as_usize() < adt.variants().len() {
                                let var = adt.variant(vi);
                                if f.as_usize() < var.fields.len() {
                                    name = var.fields[f].name.to_string();
                                }
                            }
                        }
                    }
                    format!("f{}:{}", f.as_u32(), name)
                }
                ProjectionElem::Index(l) => format!("i{}", l.as_u32()),
                ProjectionElem::ConstantIndex { offset, min_length, from_end } => {
                    format!("c{}:{}:{}", offset, min_length, if from_end { 1 } else { 0 })
                }
                ProjectionElem::Subslice { from, to, from_end } => {
                    format!("s{}:{}:{}", from, to, if from_end { 1 } else { 0 })
                }
                ProjectionElem::Downcast(name, idx) => {
                    format!("d{}:{}", idx.as_u32(), name.map(|n| n.to_string()).unwrap_or_default())
                }
                ProjectionElem::OpaqueCast(_) => "o".to_string(),
                ProjectionElem::UnwrapUnsafeBinder(_) => "u".to_string(),
            };
            v.push(js(&s));
        }
        jarr(&v)
    }

    fn operand(&self, o: &Operand<'tcx>) -> String {
        match o {
            Operand::Copy(p) => format!("[\"c\",{}]", self.place(p)),
            Operand::Move(p) => format!("[\"m\",{}]", self.place(p)),
            Operand::Constant(c) => format!("[\"k\",{}]", const_json(self.tcx, self.env, c)),
            #[allow(unreachable_patterns)]
            _ => format!("[\"x\",{}]", js(&format!("{:?}", o))),
        }
    }

    fn rvalue(&self, r: &Rvalue<'tcx>) -> String {
        match r {
            Rvalue::Use(o, _) => format!("[\"use\",{}]", self.operand(o)),
            Rvalue::Repeat(o, n) => format!("[\"repeat\",{},{}]", self.operand(o), js(&format!("{}", n))),
            Rvalue::Ref(_, bk, p) => {
                let k = match bk {
                    BorrowKind::Shared => "shared",
                    BorrowKind::Fake(_) => "fake",
                    BorrowKind::Mut { .. } => "mut",
                };
                format!("[\"ref\",{},{}]", js(k), self.place(p))
            }
            Rvalue::ThreadLocalRef(d) => format!("[\"tls\",{}]", js(&did(self.tcx, *d))),
            Rvalue::RawPtr(k, p) => format!("[\"rawptr\",{},{}]", js(&format!("{:?}", k)), self.place(p)),
            Rvalue::Cast(k, o, t) => {
                let from = o.ty(self.body, self.tcx);
                format!(
                    "[\"cast\",{},{},{},{}]",
                    js(&format!("{:?}", k)),
                    self.operand(o),
                    js(&tystr(*t)),
                    js(&tystr(from))
                )
            }
            Rvalue::BinaryOp(op, b) => {
                format!("[\"bin\",{},{},{}]", js(&format!("{:?}", op)), self.operand(&b.0), self.operand(&b.1))
            }
            Rvalue::UnaryOp(op, o) => format!("[\"un\",{},{}]", js(&format!("{:?}", op)), self.operand(o)),
            Rvalue::Discriminant(p) => format!("[\"discr\",{}]", self.place(p)),
            Rvalue::Aggregate(k, ops) => {
                let kd = match &**k {
                    AggregateKind::Array(t) => jobj(&[("k", js("array")), ("ty", js(&tystr(*t)))]),
                    AggregateKind::Tuple => jobj(&[("k", js("tuple"))]),
                    AggregateKind::Adt(d, vi, _args, _, _) => {
                        let adt = self.tcx.adt_def(*d);
                        let vname = adt.variant(*vi).name.to_string();
                        jobj(&[
                            ("k", js("adt")),
                            ("def", js(&did(self.tcx, *d))),
                            ("variant", format!("{}", vi.as_u32())),
                            ("vname", js(&vname)),
                        ])
                    }
                    AggregateKind::Closure(d, _) => jobj(&[("k", js("closure")), ("def", js(&did(self.tcx, *d)))]),
                    AggregateKind::Coroutine(d, _) => jobj(&[("k", js("coroutine")), ("def", js(&did(self.tcx, *d)))]),
                    AggregateKind::CoroutineClosure(d, _) => {
                        jobj(&[("k", js("coroutine_closure")), ("def", js(&did(self.tcx, *d)))])
                    }
                    AggregateKind::RawPtr(..) => jobj(&[("k", js("rawptr"))]),
                };
                let v: Vec<String> = ops.iter().map(|o| self.operand(o)).collect();
                format!("[\"agg\",{},{}]", kd, jarr(&v))
            }
            Rvalue::CopyForDeref(p) => format!("[\"cfd\",{}]", self.place(p)),
            _ => format!("[\"other\",{}]", js(&format!("{:?}", r))),
        }
    }

    fn callee(&self, func: &Operand<'tcx>) -> String {
        if let Some((d, args)) = func.const_fn_def() {
            let tcx = self.tcx;
            let mut f: Vec<(&str, String)> = vec![
                ("def", js(&did(tcx, d))),
                ("name", js(&pretty(tcx, d))),
                ("krate", js(&tcx.crate_name(d.krate).to_string())),
            ];
            let substs: Vec<String> = args.iter().map(|a| js(&with_no_trimmed_paths!(format!("{}", a)))).collect();
            f.push(("substs", jarr(&substs)));
            if matches!(tcx.def_kind(d), DefKind::AssocFn) {
                if let Some(t) = tcx.trait_of_assoc(d) {
                    f.push(("trait", js(&did(tcx, t))));
                    if args.len() > 0 {
                        if let Some(t0) = args[0].as_type() {
                            f.push(("self_ty", js(&tystr(t0))));
                        }
                    }
                } else if let Some(i) = tcx.impl_of_assoc(d) {
                    let st = tcx.type_of(i).instantiate_identity().skip_norm_wip();
                    f.push(("impl_self", js(&tystr(st))));
                }
            }
            // resolution in the caller's typing environment
            match Instance::try_resolve(tcx, self.env, d, args) {
                Ok(Some(inst)) => {
                    let rd = inst.def_id();
                    let kind = match inst.def {
                        ty::InstanceKind::Item(_) => "item",
                        ty::InstanceKind::Virtual(..) => "virtual",
                        ty::InstanceKind::ClosureOnceShim { .. } => "closure_once_shim",
                        ty::InstanceKind::FnPtrShim(..) => "fnptr_shim",
                        ty::InstanceKind::DropGlue(..) => "drop_glue",
                        ty::InstanceKind::CloneShim(..) => "clone_shim",
                        ty::InstanceKind::Intrinsic(..) => "intrinsic",
                        ty::InstanceKind::ReifyShim(..) => "reify_shim",
                        _ => "other",
                    };
                    f.push(("res", js(&did(tcx, rd))));
                    f.push(("res_kind", js(kind)));
                    if rd != d {
                        f.push(("res_name", js(&pretty(tcx, rd))));
                    }
                }
                Ok(None) => f.push(("res", "null".to_string())),
                Err(_) => f.push(("res", "null".to_string())),
            }
            jobj(&f)
        } else {
            let t = func.ty(self.body, self.tcx);
            jobj(&[("ptr", self.operand(func)), ("ty", js(&tystr(t)))])
        }
    }

    /// for `switchInt(discriminant(place))`: value -> variant name of the enum being matched
    fn switch_variants(&self, data: &BasicBlockData<'tcx>, discr: &Operand<'tcx>) -> Option<String> {
        let l = match discr {
            Operand::Copy(p) | Operand::Move(p) if p.projection.is_empty() => p.local,
            _ => return None,
        };
        for s in data.statements.iter().rev() {
            if let StatementKind::Assign(b) = &s.kind {
                if b.0.local == l && b.0.projection.is_empty() {
                    if let Rvalue::Discriminant(pl) = &b.1 {
                        let ty = pl.ty(self.body, self.tcx).ty;
                        if let ty::Adt(adt, _) = ty.kind() {
                            if adt.is_enum() {
                                let mut v = vec![];
                                for (vi, d) in adt.discriminants(self.tcx) {
                                    v.push(format!("{}:{}", js(&format!("{}", d.val)), js(&adt.variant(vi).name.to_string())));
                                }
                                return Some(format!(
                                    "{{\"enum\":{},\"names\":{{{}}}}}",
                                    js(&did(self.tcx, adt.did())),
                                    v.join(",")
                                ));
                            }
                        }
                    }
                    return None;
                }
            }
        }
        None
    }

    fn terminator(&self, t: &Terminator<'tcx>) -> String {
        let bb = |b: &BasicBlock| format!("{}", b.as_u32());
        let unwind = |u: &UnwindAction| match u {
            UnwindAction::Cleanup(b) => format!("{}", b.as_u32()),
            _ => "null".to_string(),
        };
        let (file, line, col, _) = span_loc(self.tcx, t.source_info.span);
        match &t.kind {
            TerminatorKind::Goto { target } => jobj(&[("t", js("goto")), ("to", bb(target))]),
            TerminatorKind::SwitchInt { discr, targets } => {
                let mut vals = vec![];
                for (v, b) in targets.iter() {
                    vals.push(format!("[{},{}]", js(&format!("{}", v)), bb(&b)));
                }
                let dty = discr.ty(self.body, self.tcx);
                jobj(&[
                    ("t", js("switch")),
                    ("on", self.operand(discr)),
                    ("ty", js(&tystr(dty))),
                    ("vals", jarr(&vals)),
                    ("else", bb(&targets.otherwise())),
                    ("line", format!("{}", line)),
                ])
            }
            TerminatorKind::UnwindResume => jobj(&[("t", js("resume"))]),
            TerminatorKind::UnwindTerminate(_) => jobj(&[("t", js("terminate"))]),
            TerminatorKind::Return => jobj(&[("t", js("ret"))]),
            TerminatorKind::Unreachable => jobj(&[("t", js("unreach"))]),
            TerminatorKind::Drop { place, target, unwind: u, .. } => jobj(&[
                ("t", js("drop")),
                ("place", self.place(place)),
                ("to", bb(target)),
                ("unwind", unwind(u)),
            ]),
            TerminatorKind::Call { func, args, destination, target, unwind: u, call_source, fn_span } => {
                let a: Vec<String> = args.iter().map(|x| self.operand(&x.node)).collect();
                let exp: Vec<String> = expansion_chain(t.source_info.span).iter().map(|s| js(s)).collect();
                // location where the call is written (innermost, may be inside a macro definition)
                jobj(&[
                    ("t", js("call")),
                    ("f", self.callee(func)),
                    ("args", jarr(&a)),
                    ("dest", self.place(destination)),
                    ("to", target.as_ref().map(bb).unwrap_or("null".to_string())),
                    ("unwind", unwind(u)),
                    ("file", js(&file)),
                    ("line", format!("{}", line)),
                    ("col", format!("{}", col)),
                    ("exp", jarr(&exp)),
                    ("src", js(&format!("{:?}", call_source))),
                ])
            }
            TerminatorKind::TailCall { func, args, .. } => {
                let a: Vec<String> = args.iter().map(|x| self.operand(&x.node)).collect();
                jobj(&[("t", js("tailcall")), ("f", self.callee(func)), ("args", jarr(&a))])
            }
            TerminatorKind::Assert { cond, expected, msg, target, unwind: u } => {
                let kind = match &**msg {
                    AssertKind::BoundsCheck { .. } => "bounds".to_string(),
                    AssertKind::Overflow(op, ..) => format!("overflow:{:?}", op),
                    AssertKind::OverflowNeg(_) => "overflow:Neg".to_string(),
                    AssertKind::DivisionByZero(_) => "div_zero".to_string(),
                    AssertKind::RemainderByZero(_) => "rem_zero".to_string(),
                    AssertKind::MisalignedPointerDereference { .. } => "misaligned".to_string(),
                    AssertKind::NullPointerDereference => "nullptr".to_string(),
                    AssertKind::InvalidEnumConstruction(_) => "invalid_enum".to_string(),
                    AssertKind::ResumedAfterReturn(_) | AssertKind::ResumedAfterPanic(_) | AssertKind::ResumedAfterDrop(_) => {
                        "resumed".to_string()
                    }
                    _ => "other".to_string(),
                };
                let exp: Vec<String> = expansion_chain(t.source_info.span).iter().map(|s| js(s)).collect();
                jobj(&[
                    ("t", js("assert")),
                    ("cond", self.operand(cond)),
                    ("expected", format!("{}", expected)),
                    ("kind", js(&kind)),
                    ("to", bb(target)),
                    ("unwind", unwind(u)),
                    ("file", js(&file)),
                    ("line", format!("{}", line)),
                    ("exp", jarr(&exp)),
                ])
            }
            TerminatorKind::Yield { .. } => jobj(&[("t", js("yield"))]),
            TerminatorKind::CoroutineDrop => jobj(&[("t", js("coroutine_drop"))]),
            TerminatorKind::FalseEdge { real_target, .. } => jobj(&[("t", js("goto")), ("to", bb(real_target))]),
            TerminatorKind::FalseUnwind { real_target, .. } => jobj(&[("t", js("goto")), ("to", bb(real_target))]),
            TerminatorKind::InlineAsm { .. } => jobj(&[("t", js("asm"))]),
        }
    }

    fn body_json(&self) -> (String, String, String) {
        let tcx = self.tcx;
        let sm = tcx.sess.source_map();
        // locals
        let mut names: Vec<Option<String>> = vec![None; self.body.local_decls.len()];
        let mut vars = vec![];
        for v in &self.body.var_debug_info {
            match &v.value {
                VarDebugInfoContents::Place(p) => {
                    if p.projection.is_empty() {
                        names[p.local.as_usize()] = Some(v.name.to_string());
                    }
                    vars.push(jobj(&[("name", js(&v.name.to_string())), ("place", self.place(p))]));
                }
                VarDebugInfoContents::Const(_) => {
                    vars.push(jobj(&[("name", js(&v.name.to_string())), ("place", "null".to_string())]));
                }
            }
        }
        let mut locals = vec![];
        for (l, d) in self.body.local_decls.iter_enumerated() {
            let mut f: Vec<(&str, String)> = vec![("ty", js(&tystr(d.ty)))];
            if let Some(n) = &names[l.as_usize()] {
                f.push(("name", js(n)));
            }
            if d.mutability.is_mut() {
                f.push(("mut", "true".to_string()));
            }
            locals.push(jobj(&f));
        }
        let mut blocks = vec![];
        for (_b, data) in self.body.basic_blocks.iter_enumerated() {
            let mut stmts = vec![];
            for s in &data.statements {
                match &s.kind {
                    StatementKind::Assign(b) => {
                        let line = sm.lookup_char_pos(s.source_info.span.source_callsite().lo()).line;
                        stmts.push(format!("[\"=\",{},{},{}]", self.place(&b.0), self.rvalue(&b.1), line));
                    }
                    StatementKind::SetDiscriminant { place, variant_index } => {
                        stmts.push(format!("[\"setdiscr\",{},{}]", self.place(place), variant_index.as_u32()));
                    }
                    StatementKind::Intrinsic(i) => {
                        stmts.push(format!("[\"intrinsic\",{}]", js(&format!("{:?}", i))));
                    }
                    StatementKind::StorageDead(l) => {
                        stmts.push(format!("[\"dead\",{}]", l.as_u32()));
                    }
                    _ => {}
                }
            }
            let mut term = self.terminator(data.terminator());
            if let TerminatorKind::SwitchInt { discr, .. } = &data.terminator().kind {
                if let Some(v) = self.switch_variants(data, discr) {
                    term.pop();
                    term.push_str(&format!(",\"variants\":{}}}", v));
                }
            }
            let mut f: Vec<(&str, String)> = vec![("s", jarr(&stmts)), ("t", term)];
            if data.is_cleanup {
                f.push(("cleanup", "true".to_string()));
            }
            blocks.push(jobj(&f));
        }
        (jarr(&locals), jarr(&vars), jarr(&blocks))
    }
}

// ---------------------------------------------------------------- item-level facts

fn impl_info<'tcx>(tcx: TyCtxt<'tcx>, impl_id: DefId) -> String {
    let self_ty = tcx.type_of(impl_id).instantiate_identity().skip_norm_wip();
    let mut f: Vec<(&str, String)> = vec![("id", js(&did(tcx, impl_id))), ("self_ty", js(&tystr(self_ty)))];
    if let ty::Adt(adt, _) = self_ty.kind() {
        f.push(("self_adt", js(&did(tcx, adt.did()))));
    }
    if let Some(tr) = tcx.impl_opt_trait_ref(impl_id) {
        let tr = tr.instantiate_identity().skip_norm_wip();
        f.push(("trait", js(&did(tcx, tr.def_id))));
        f.push(("trait_ref", js(&with_no_trimmed_paths!(format!("{:?}", tr)))));
    } else {
        f.push(("trait", "null".to_string()));
    }
    f.push(("derived", format!("{}", tcx.is_automatically_derived(impl_id))));
    jobj(&f)
}

fn dump<'tcx>(tcx: TyCtxt<'tcx>) {
    let out_dir = match std::env::var("VERIF_FACTS_DIR") {
        Ok(d) => d,
        Err(_) => return,
    };
    let crate_name = tcx.crate_name(LOCAL_CRATE).to_string();
    if crate_name.starts_with("build_script") {
        return;
    }
    let is_test = tcx.sess.opts.test;
    let crate_types: Vec<String> = tcx.crate_types().iter().map(|c| js(&format!("{:?}", c))).collect();

    let mut fns = vec![];
    let mut adts = vec![];
    let mut impls = vec![];
    let mut traits = vec![];
    let mut consts = vec![];
    let sm = tcx.sess.source_map();

    // ---- items
    for ldid in tcx.hir_crate_items(()).definitions() {
        let d = ldid.to_def_id();
        let kind = tcx.def_kind(d);
        match kind {
            DefKind::Struct | DefKind::Enum | DefKind::Union => {
                let adt = tcx.adt_def(d);
                let mut variants = vec![];
                let discrs: Vec<(rustc_abi::VariantIdx, ty::util::Discr<'tcx>)> =
                    if adt.is_enum() { adt.discriminants(tcx).collect() } else { vec![] };
                for (vi, v) in adt.variants().iter_enumerated() {
                    let mut flds = vec![];
                    for fd in v.fields.iter() {
                        let t = tcx.type_of(fd.did).instantiate_identity().skip_norm_wip();
                        flds.push(jobj(&[("name", js(&fd.name.to_string())), ("ty", js(&tystr(t)))]));
                    }
                    let dv = discrs.iter().find(|(i, _)| *i == vi).map(|(_, dd)| format!("{}", dd.val));
                    variants.push(jobj(&[
                        ("name", js(&v.name.to_string())),
                        ("idx", format!("{}", vi.as_u32())),
                        ("discr", dv.map(|x| js(&x)).unwrap_or("null".to_string())),
                        ("fields", jarr(&flds)),
                    ]));
                }
                let (file, line, _, _) = span_loc(tcx, tcx.def_span(d));
                adts.push(jobj(&[
                    ("def", js(&did(tcx, d))),
                    ("name", js(&pretty(tcx, d))),
                    ("kind", js(&format!("{:?}", kind))),
            ("coroutine", format!("{}", tcx.is_coroutine(d))),
                    ("variants", jarr(&variants)),
                    ("file", js(&file)),
                    ("line", format!("{}", line)),
                ]));
            }
            DefKind::Impl { .. } => {
                let mut items = vec![];
                for it in tcx.associated_items(d).in_definition_order() {
                    let mut f: Vec<(&str, String)> = vec![
                        ("name", js(&it.opt_name().map(|n| n.to_string()).unwrap_or_default())),
                        ("def", js(&did(tcx, it.def_id))),
                        ("kind", js(&format!("{:?}", it.kind.as_def_kind()))),
                    ];
                    if let Some(ti) = tcx.trait_item_of(it.def_id) {
                        f.push(("trait_item", js(&did(tcx, ti))));
                    }
                    items.push(jobj(&f));
                }
                let (file, line, _, _) = span_loc(tcx, tcx.def_span(d));
                let exp: Vec<String> = expansion_chain(tcx.def_span(d)).iter().map(|s| js(s)).collect();
                let info = impl_info(tcx, d);
                // splice
                let mut s = info;
                s.pop();
                write!(
                    s,
                    ",\"items\":{},\"file\":{},\"line\":{},\"exp\":{}}}",
                    jarr(&items),
                    js(&file),
                    line,
                    jarr(&exp)
                )
                .unwrap();
                impls.push(s);
            }
            DefKind::Trait => {
                let mut items = vec![];
                for it in tcx.associated_items(d).in_definition_order() {
                    items.push(jobj(&[
                        ("name", js(&it.opt_name().map(|n| n.to_string()).unwrap_or_default())),
                        ("def", js(&did(tcx, it.def_id))),
                        ("kind", js(&format!("{:?}", it.kind.as_def_kind()))),
                        ("has_default", format!("{}", it.defaultness(tcx).has_value())),
                    ]));
                }
                traits.push(jobj(&[("def", js(&did(tcx, d))), ("name", js(&pretty(tcx, d))), ("items", jarr(&items))]));
            }
            DefKind::Const { .. } | DefKind::Static { .. } | DefKind::AssocConst { .. } => {
                let t = tcx.type_of(d).instantiate_identity().skip_norm_wip();
                let mut f: Vec<(&str, String)> = vec![
                    ("def", js(&did(tcx, d))),
                    ("name", js(&pretty(tcx, d))),
                    ("kind", js(&format!("{:?}", kind))),
                    ("ty", js(&tystr(t))),
                ];
                let is_str = match t.kind() {
                    ty::Ref(_, inner, _) => inner.is_str(),
                    _ => false,
                };
                if is_str && matches!(kind, DefKind::Const { .. }) && tcx.generics_of(d).is_empty() {
                    if let Ok(cv) = tcx.const_eval_poly(d) {
                        if let Some(b) = cv.try_get_slice_bytes_for_diagnostics(tcx) {
                            f.push(("value", bytes_json(b)));
                        }
                    }
                }
                if is_str && matches!(kind, DefKind::Static { .. }) {
                    if let Some(b) = static_str(tcx, d) {
                        f.push(("value", bytes_json(b)));
                    }
                }
                let (file, line, _, _) = span_loc(tcx, tcx.def_span(d));
                f.push(("file", js(&file)));
                f.push(("line", format!("{}", line)));
                consts.push(jobj(&f));
            }
            _ => {}
        }
    }

    // ---- bodies
    for ldid in tcx.hir_body_owners() {
        let d = ldid.to_def_id();
        let kind = tcx.def_kind(d);
        if !matches!(kind, DefKind::Fn | DefKind::AssocFn | DefKind::Closure) {
            continue;
        }
        // NB: for a coroutine (the body of an `async fn` / `async` block) this is the lowered state machine: its calls,
        // statements and panic sites are those of the source body; the resumption checks are tagged "resumed" below.
        let body = tcx.optimized_mir(d);
        let env = TypingEnv::post_analysis(tcx, d);
        let cx = Cx { tcx, body, env };
        let (locals, vars, blocks) = cx.body_json();
        let sp = tcx.def_span(d);
        let (file, line, _, _) = span_loc(tcx, sp);
        let full = body.span;
        let end_line = sm.lookup_char_pos(full.source_callsite().hi()).line;
        let exp: Vec<String> = expansion_chain(sp).iter().map(|s| js(s)).collect();
        let mut f: Vec<(&str, String)> = vec![
            ("def", js(&did(tcx, d))),
            ("name", js(&pretty(tcx, d))),
            ("kind", js(&format!("{:?}", kind))),
            ("file", js(&file)),
            ("line", format!("{}", line)),
            ("end_line", format!("{}", end_line)),
            ("exp", jarr(&exp)),
            ("argc", format!("{}", body.arg_count)),
        ];
        // parent (closure -> enclosing fn; assoc fn -> impl/trait)
        let parent = tcx.parent(d);
        f.push(("parent", js(&did(tcx, parent))));
        if matches!(kind, DefKind::Closure) {
            let root = tcx.typeck_root_def_id(d);
            f.push(("root", js(&did(tcx, root))));
        }
        if matches!(kind, DefKind::AssocFn) {
            if let Some(i) = tcx.impl_of_assoc(d) {
                f.push(("impl", impl_info(tcx, i)));
                if let Some(ti) = tcx.trait_item_of(d) {
                    f.push(("trait_item", js(&did(tcx, ti))));
                }
            } else if let Some(t) = tcx.trait_of_assoc(d) {
                f.push(("trait_default_of", js(&did(tcx, t))));
            }
        }
        if matches!(kind, DefKind::Fn | DefKind::AssocFn) {
            let sig = tcx.fn_sig(d).instantiate_identity().skip_norm_wip();
            f.push(("sig", js(&with_no_trimmed_paths!(format!("{}", sig)))));
            f.push(("unsafe", format!("{}", sig.safety().is_unsafe())));
            let vis = tcx.visibility(d);
            f.push(("pub", format!("{}", vis.is_public())));
            let g = tcx.generics_of(d);
            let mut gp = vec![];
            let mut cur = Some(g);
            while let Some(gg) = cur {
                for p in &gg.own_params {
                    gp.push(js(&p.name.to_string()));
                }
                cur = gg.parent.map(|pp| tcx.generics_of(pp));
            }
            f.push(("generics", jarr(&gp)));
        }
        f.push(("locals", locals));
        f.push(("vars", vars));
        f.push(("blocks", blocks));
        fns.push(jobj(&f));
    }

    let out = jobj(&[
        ("crate", js(&crate_name)),
        ("is_test", format!("{}", is_test)),
        ("crate_types", jarr(&crate_types)),
        ("adts", jarr(&adts)),
        ("impls", jarr(&impls)),
        ("traits", jarr(&traits)),
        ("consts", jarr(&consts)),
        ("fns", jarr(&fns)),
    ]);
    let suffix = if is_test { "test" } else { "lib" };
    // a crate can have several targets with the same crate name (lib + tests named alike): disambiguate by pid
    let path = format!("{}/{}.{}.{}.json", out_dir, crate_name, suffix, std::process::id());
    let tmp = format!("{}.tmp", path);
    std::fs::write(&tmp, out).expect("write facts");
    std::fs::rename(&tmp, &path).expect("rename facts");
}

struct Cb;

impl Callbacks for Cb {
    fn after_analysis<'tcx>(&mut self, _compiler: &rustc_interface::interface::Compiler, tcx: TyCtxt<'tcx>) -> Compilation {
        dump(tcx);
        Compilation::Continue
    }
}

fn main() {
    let mut args: Vec<String> = std::env::args().collect();
    // RUSTC_WORKSPACE_WRAPPER mode: argv[1] is the path of the real rustc
    if args.len() > 1 && (args[1].ends_with("rustc") || args[1].contains("/rustc")) {
        args.remove(1);
    }
    let mut cb = Cb;
    rustc_driver::run_compiler(&args, &mut cb);
}
