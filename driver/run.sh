#!/bin/bash
# usage: run.sh <facts_dir> [cargo check args...]   — runs the fact driver over /repo (or $VERIF_REPO)
set -e
FACTS=$1; shift
REPO=${VERIF_REPO:-/repo}
S=$(rustc +nightly --print sysroot)
TGT=$(mktemp -d /var/tmp/verif-tgt.XXXXXX)
trap 'rm -rf "$TGT"' EXIT
mkdir -p "$FACTS"
cd "$REPO"
env LD_LIBRARY_PATH=$S/lib RUSTFLAGS="-Zmir-opt-level=0 -Awarnings" \
  RUSTC_WORKSPACE_WRAPPER=/verif/driver/target/release/sophia-facts-driver \
  VERIF_FACTS_DIR="$FACTS" CARGO_TARGET_DIR="$TGT" CARGO_NET_OFFLINE=true \
  cargo +nightly check --offline "$@"
